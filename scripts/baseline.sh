#!/bin/bash
# Runs the repository's pinned test suite (guard off: no overlay, default toolchain)
# and compares the set of passing tests with /root/.vp/BASELINE.json stable_pass.
set -u
OUT=$(mktemp /tmp/verif-baseline-XXXXXX.json)
# usage: baseline.sh [package pattern, default ./...]   (VERIF_REPO overrides /repo)
PKG="${1:-./...}"
cd "${VERIF_REPO:-/repo}" || exit 2
GOFLAGS=-mod=mod GOPROXY=off GOSUMDB=off go test -mod=mod -json -vet=off -count=1 -timeout 25m $PKG > "$OUT" 2>/dev/null
python3 - "$OUT" "$PKG" <<'PY'
import json,sys
passed=set()
for l in open(sys.argv[1]):
    try: e=json.loads(l)
    except Exception: continue
    if e.get('Action')=='pass' and e.get('Test'):
        passed.add(e['Package']+'::'+e['Test'])
b=json.load(open('/root/.vp/BASELINE.json'))
expected=b['stable_pass']
if sys.argv[2] != './...':
    pk='github.com/traefik/yaegi/'+sys.argv[2].lstrip('./')
    expected=[t for t in expected if t.split('::')[0]==pk]
missing=[t for t in expected if t not in passed]
print(f"baseline: {len(passed)} passed, {len(expected)} expected, {len(missing)} missing")
for m in missing[:40]: print("  MISSING", m)
sys.exit(1 if missing else 0)
PY
rc=$?
rm -f "$OUT"
exit $rc
