#!/bin/bash
# Offline setup: builds the weaver and the driver, warms the go1.26.8 build cache
# (plain and -race) by building the simulator once against the current tree.
set -e
cd "$(dirname "$0")/.."
export GOFLAGS=-mod=mod GOPROXY=off GOSUMDB=off GOTOOLCHAIN=local
mkdir -p bin evidence replays
go1.26.8 build -o bin/weave ./weave
go1.26.8 build -o bin/verifctl ./cmd/verifctl
TMP=$(mktemp -d /tmp/verif-setup-XXXXXX)
trap 'rm -rf "$TMP"' EXIT
./bin/weave -repo /repo -out "$TMP/woven" >/dev/null
(cd sim && go1.26.8 test -c -overlay "$TMP/woven/overlay.json" -o "$TMP/sim.test" .) &
(cd sim && go1.26.8 test -c -race -overlay "$TMP/woven/overlay.json" -o "$TMP/sim.race.test" .) &
wait
test -x "$TMP/sim.test" && test -x "$TMP/sim.race.test"
echo "setup: ok"
