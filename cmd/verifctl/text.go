package main

import (
	"fmt"
	"os"
	"path/filepath"
	"sync"
)

var rules = map[string]string{
	"C09": "case = (generated program from the C09 family, entry point, cancellation flavour, scheduling knobs) drawn from the tape; a fault-free run measures N, then one run per cancellation point k=1..N+1 (k counted in interpreted operations, or in hook events for the fine-grained flavour; N+1 = cancel when every task is blocked). A run is non-trivial when the cancellation actually fired before the program ended; distinct = distinct hash of the full decision and operation trace.",
	"C08": "case = (template, parameters, scheduling strategy, hot intra-operation sites) drawn from the tape; one simulated run per case compared with the native execution of the same source. Non-trivial = at least two tasks executed interpreted operations and at least one task switch happened; distinct = distinct hash of the decision and operation trace.",
	"C10": "case = history define* ; (use | cancelled-eval)* drawn from the tape, executed on one interpreter inside one bubble. Non-trivial = at least one cancellation fired and at least one use followed it; distinct = distinct trace hash.",
	"C06": "case = (call-tree shape, fault plan) enumerated or drawn from the tape; the same engine source runs natively and interpreted. Non-trivial = the plan raises at least one panic or run-time fault; distinct = distinct (shape, plan) hash.",
	"C19": "case = (program, breakpoint set, resume-request policy, controller/debuggee interleaving) drawn from the tape. Non-trivial = at least one stop event was delivered and answered; distinct = distinct hash of the event/decision trace.",
}

func assumptions(id string) []string {
	a := []string{
		"the Go runtime, reflect and testing/synctest (fake clock, durable-block detection) are trusted",
		"the weaver only inserts `verifStep/verifYield` calls, rewrites `go` statements into verifGo closures and mutex acquisitions into cooperative ones; with hooks unset the woven package behaves like the original",
		"simulation samples schedules and fault instants; a clean batch is evidence, not proof",
	}
	switch id {
	case "C08":
		a = append(a, "the native compilation of the same template source is the meaning of 'the compiled program's output'", "race reports are attributed to yaegi only if one of the two stacks has its innermost non-runtime frame in github.com/traefik/yaegi")
	case "C06":
		a = append(a, "the text of run-time fault messages is not compared (only that a fault is an ordinary recoverable panic)", "the native compilation of the same engine source is the reference")
	}
	return a
}

func selftest(what string, args []string) int {
	switch what {
	case "determinism":
		return determinism(args)
	}
	fatal2("unknown selftest %s", what)
	return 2
}

// determinism: the same jobs are executed in many fresh processes at GOMAXPROCS
// 1, 4 and 16; the per-run logs must be byte-identical.
func determinism(args []string) int {
	props := []string{"C09", "C08", "C10", "C19", "C06"}
	procs := 9
	cases := 6
	if len(args) > 0 {
		props = args
	}
	if os.Getenv("VERIF_DET_PROCS") != "" {
		fmt.Sscan(os.Getenv("VERIF_DET_PROCS"), &procs)
	}
	if os.Getenv("VERIF_DET_CASES") != "" {
		fmt.Sscan(os.Getenv("VERIF_DET_CASES"), &cases)
	}
	b := doBuild(false)
	defer os.RemoveAll(b.tmp)
	bad := 0
	for _, p := range props {
		if _, ok := tiers[p]; !ok {
			continue
		}
		var mu sync.Mutex
		logs := map[int]string{}
		var wg sync.WaitGroup
		gmp := []int{1, 4, 16}
		for i := 0; i < procs; i++ {
			wg.Add(1)
			go func(i int) {
				defer wg.Done()
				j := job{Property: p, Tier: "quick", Mode: "determinism", Seed: 7, Worker: 0, Workers: 1, Cases: cases, BudgetS: 600}
				r, out, err := runWorker(b.plain, j, gmp[i%3], b.tmp, fmt.Sprintf("det-%s-%d", p, i))
				mu.Lock()
				defer mu.Unlock()
				if err != nil {
					logs[i] = "ERROR " + err.Error() + tail(out, 20)
					return
				}
				if r.Error != "" {
					logs[i] = "ERROR " + r.Error
					return
				}
				s, _ := r.Extra["log"].(string)
				logs[i] = s
			}(i)
		}
		wg.Wait()
		ref := logs[0]
		ok := true
		for i := 1; i < procs; i++ {
			if logs[i] != ref {
				ok = false
				bad++
				os.WriteFile(filepath.Join(os.TempDir(), fmt.Sprintf("verif-det-%s-0.log", p)), []byte(ref), 0o644)
				os.WriteFile(filepath.Join(os.TempDir(), fmt.Sprintf("verif-det-%s-%d.log", p, i)), []byte(logs[i]), 0o644)
				fmt.Printf("determinism: %s: process %d (GOMAXPROCS=%d) diverges from process 0; logs in %s\n", p, i, gmp[i%3], os.TempDir())
				break
			}
		}
		n := 0
		for _, c := range ref {
			if c == '\n' {
				n++
			}
		}
		if len(ref) >= 5 && ref[:5] == "ERROR" {
			fmt.Printf("determinism: %s: %s\n", p, ref)
			bad++
		} else if ok {
			fmt.Printf("determinism: %s: %d processes x %d runs identical\n", p, procs, n)
		}
	}
	if bad > 0 {
		return 2
	}
	return 0
}
