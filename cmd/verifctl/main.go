// Command verifctl is the driver of the /verif checks.
//
//	verifctl check <ID> --tier quick|thorough [--seed N] [--cases N] [--budget S] [--workers N]
//	verifctl replay <file>
//	verifctl selftest determinism|weave
//
// Exit status: 0 the property held on everything explored (known findings are
// printed as KNOWN-FINDING lines); 1 a violation was found (VIOLATION line per
// violation); 2 harness trouble (build, weave, watchdog, determinism) — never
// accompanied by a VIOLATION line.
package main

import (
	"bufio"
	"crypto/sha256"
	"encoding/binary"
	"encoding/json"
	"flag"
	"fmt"
	"os"
	"os/exec"
	"path/filepath"
	"regexp"
	"runtime"
	"sort"
	"strconv"
	"strings"
	"sync"
	"time"
)

const goBin = "go1.26.8"

// verifDir is the directory holding sim/, weave/, evidence/ ...: the working
// directory the commands are started from (cwd=/verif by contract; a snapshot of
// /verif when started through `vp run`).
var verifDir = func() string {
	if wd, err := os.Getwd(); err == nil {
		if _, err := os.Stat(filepath.Join(wd, "sim", "sched.go")); err == nil {
			return wd
		}
	}
	return "/verif"
}()

var repoDir = "/repo"

// outDir is where evidence/ and replays/ are written (VERIF_OUT_DIR redirects it
// for self-tests against scratch trees, so that committed evidence is untouched).
var outDir = verifDir

func goEnv() []string {
	env := os.Environ()
	env = append(env, "GOFLAGS=-mod=mod", "GOPROXY=off", "GOSUMDB=off", "GOTOOLCHAIN=local", "CGO_ENABLED=1")
	return env
}

func fatal2(f string, a ...any) {
	fmt.Fprintf(os.Stderr, "verifctl: "+f+"\n", a...)
	os.Exit(2)
}

type tierCfg struct {
	Cases   int
	BudgetS float64
}

// per-property defaults: cases are spread over the workers; the budget is the
// wall-clock limit of each worker.
var tiers = map[string]map[string]tierCfg{
	"C09": {"quick": {320, 90}, "thorough": {4800, 1500}},
	"C08": {"quick": {28000, 150}, "thorough": {5000000, 1500}},
	"C10": {"quick": {3200, 90}, "thorough": {8000000, 1200}},
	"C06": {"quick": {66000, 150}, "thorough": {20000000, 1200}},
	"C19": {"quick": {12000, 90}, "thorough": {5000000, 1200}},
}

var levels = map[string]string{"C06": "fault_enumeration", "C08": "exploration", "C09": "fault_enumeration", "C10": "exploration", "C19": "exploration"}

type known struct {
	kind string // finding | fixed
	prop string
	sig  string
	text string
}

func loadKnown() []known {
	f, err := os.Open(filepath.Join(verifDir, "known_findings.txt"))
	if err != nil {
		return nil
	}
	defer f.Close()
	var out []known
	sc := bufio.NewScanner(f)
	for sc.Scan() {
		l := strings.TrimSpace(sc.Text())
		if l == "" || strings.HasPrefix(l, "#") {
			continue
		}
		var k known
		switch {
		case strings.HasPrefix(l, "finding:"):
			k.kind = "finding"
			l = strings.TrimSpace(strings.TrimPrefix(l, "finding:"))
		case strings.HasPrefix(l, "fixed:"):
			k.kind = "fixed"
			l = strings.TrimSpace(strings.TrimPrefix(l, "fixed:"))
		default:
			continue
		}
		// property=Cxx sig="..." text
		if strings.HasPrefix(l, "property=") {
			sp := strings.IndexByte(l, ' ')
			if sp < 0 {
				continue
			}
			k.prop = l[len("property="):sp]
			l = strings.TrimSpace(l[sp:])
		}
		if strings.HasPrefix(l, "sig=\"") {
			e := strings.Index(l[5:], "\"")
			if e >= 0 {
				k.sig = l[5 : 5+e]
				l = strings.TrimSpace(l[5+e+1:])
			}
		}
		k.text = l
		out = append(out, k)
	}
	return out
}

func treeHash() string {
	h := sha256.New()
	for _, d := range []string{"interp", "stdlib"} {
		ents, _ := os.ReadDir(filepath.Join(repoDir, d))
		for _, e := range ents {
			if e.IsDir() || !strings.HasSuffix(e.Name(), ".go") {
				continue
			}
			if d == "stdlib" && e.Name() != "restricted.go" && e.Name() != "stdlib.go" {
				continue
			}
			b, _ := os.ReadFile(filepath.Join(repoDir, d, e.Name()))
			h.Write([]byte(e.Name()))
			h.Write(b)
		}
	}
	return fmt.Sprintf("%x", h.Sum(nil))[:16]
}

type build struct {
	tmp   string
	plain string
	race  string
	sites map[string]int
}

func run(dir string, name string, args ...string) (string, error) {
	cmd := exec.Command(name, args...)
	cmd.Dir = dir
	cmd.Env = goEnv()
	out, err := cmd.CombinedOutput()
	return string(out), err
}

func doBuild(withRace bool) *build {
	tmp, err := os.MkdirTemp("", "verif-build-")
	if err != nil {
		fatal2("mktemp: %v", err)
	}
	b := &build{tmp: tmp}
	weave := filepath.Join(verifDir, "bin", "weave")
	if _, err := os.Stat(weave); err != nil {
		if out, err := run(verifDir, goBin, "build", "-o", weave, "./weave"); err != nil {
			os.RemoveAll(tmp)
			fatal2("building weaver: %v\n%s", err, out)
		}
	}
	woven := filepath.Join(tmp, "woven")
	if out, err := run(verifDir, weave, "-repo", repoDir, "-as", "/repo", "-out", woven); err != nil {
		os.RemoveAll(tmp)
		fatal2("weaving failed: %v\n%s", err, out)
	}
	ov := filepath.Join(woven, "overlay.json")
	var wg sync.WaitGroup
	var errPlain, errRace error
	var outPlain, outRace string
	b.plain = filepath.Join(tmp, "sim.test")
	wg.Add(1)
	go func() {
		defer wg.Done()
		outPlain, errPlain = run(filepath.Join(verifDir, "sim"), goBin, "test", "-c", "-overlay", ov, "-o", b.plain, ".")
	}()
	if withRace {
		b.race = filepath.Join(tmp, "sim.race.test")
		wg.Add(1)
		go func() {
			defer wg.Done()
			outRace, errRace = run(filepath.Join(verifDir, "sim"), goBin, "test", "-c", "-race", "-overlay", ov, "-o", b.race, ".")
		}()
	}
	wg.Wait()
	if errPlain != nil {
		os.RemoveAll(tmp)
		fatal2("building the simulator against the current tree failed: %v\n%s", errPlain, outPlain)
	}
	if errRace != nil {
		os.RemoveAll(tmp)
		fatal2("building the race simulator against the current tree failed: %v\n%s", errRace, outRace)
	}
	return b
}

type replayFile struct {
	Property  string         `json:"property"`
	Invariant string         `json:"invariant"`
	Signature string         `json:"signature"`
	Message   string         `json:"message"`
	Seed      uint64         `json:"seed"`
	Case      int            `json:"case"`
	Tape      []int          `json:"tape"`
	Minimised bool           `json:"minimised"`
	OrigLen   int            `json:"original_tape_len"`
	MinRuns   int            `json:"minimiser_runs"`
	Desc      string         `json:"desc"`
	Detail    map[string]any `json:"detail"`
	Schedule  []string       `json:"schedule"`
	TreeHash  string         `json:"tree_hash"`
	Race      bool           `json:"race_build"`
	Count     int            `json:"occurrences_in_worker"`
	Crash     bool           `json:"process_crash"`
}

type workerResult struct {
	Property     string         `json:"property"`
	Worker       int            `json:"worker"`
	Cases        int            `json:"cases"`
	Runs         int            `json:"runs"`
	NonTrivial   int            `json:"nontrivial"`
	Distinct     int            `json:"distinct"`
	Violations   []replayFile   `json:"violations"`
	Stats        map[string]any `json:"stats"`
	FaultFired   map[string]int `json:"fault_fired"`
	Probes       map[string]int `json:"probes"`
	Inconclusive int            `json:"inconclusive"`
	InconSamples []string       `json:"inconclusive_samples"`
	Samples      []any          `json:"samples"`
	WallS        float64        `json:"wall_s"`
	Error        string         `json:"error"`
	Reproduced   bool           `json:"reproduced"`
	Extra        map[string]any `json:"extra"`
}

type job struct {
	Property string  `json:"property"`
	Tier     string  `json:"tier"`
	Mode     string  `json:"mode"`
	Seed     uint64  `json:"seed"`
	Worker   int     `json:"worker"`
	Workers  int     `json:"workers"`
	Cases    int     `json:"cases"`
	BudgetS  float64 `json:"budget_s"`
	Replay   string  `json:"replay"`
	Out      string  `json:"out"`
	HashOut  string  `json:"hash_out"`
	TreeHash string  `json:"tree_hash"`
	Sub      string  `json:"sub"`
	Start    int     `json:"start"`
	MaxRSSMB int     `json:"max_rss_mb"`
}

// runWorker starts one worker process and returns its result.
func runWorker(bin string, j job, gomaxprocs int, tmp string, tag string) (*workerResult, string, error) {
	jf := filepath.Join(tmp, fmt.Sprintf("job-%s-%d.json", tag, j.Worker))
	j.Out = filepath.Join(tmp, fmt.Sprintf("res-%s-%d.json", tag, j.Worker))
	jb, _ := json.Marshal(j)
	if err := os.WriteFile(jf, jb, 0o644); err != nil {
		return nil, "", err
	}
	to := time.Duration(j.BudgetS*3+300) * time.Second
	cmd := exec.Command(bin, "-test.run", "^TestWorker$", "-test.timeout", "6h", "-test.cpu", "1")
	racelog := filepath.Join(tmp, fmt.Sprintf("race-%s-%d", tag, j.Worker))
	cmd.Env = append(os.Environ(), "VERIF_JOB="+jf, "GOMAXPROCS="+strconv.Itoa(gomaxprocs),
		"GORACE=log_path="+racelog+" halt_on_error=0 history_size=3", "GOTRACEBACK=all")
	// -test.cpu 1 would override GOMAXPROCS: pass the value explicitly instead
	cmd.Args = []string{bin, "-test.run", "^TestWorker$", "-test.timeout", "6h", "-test.cpu", strconv.Itoa(gomaxprocs)}
	var outb strings.Builder
	cmd.Stdout = &outb
	cmd.Stderr = &outb
	if err := cmd.Start(); err != nil {
		return nil, "", err
	}
	done := make(chan error, 1)
	go func() { done <- cmd.Wait() }()
	var werr error
	select {
	case werr = <-done:
	case <-time.After(to):
		cmd.Process.Kill()
		<-done
		return nil, outb.String(), fmt.Errorf("worker %d: watchdog timeout after %v", j.Worker, to)
	}
	b, err := os.ReadFile(j.Out)
	if err != nil {
		// the process died: if it was exploring, the progress file names the case
		if pb, perr := os.ReadFile(j.Out + ".progress"); perr == nil && j.Mode == "explore" {
			r := &workerResult{Property: j.Property, Worker: j.Worker, FaultFired: map[string]int{}}
			if part, e := os.ReadFile(j.Out + ".partial"); e == nil {
				_ = json.Unmarshal(part, r)
			}
			idx, _ := strconv.Atoi(strings.TrimSpace(string(pb)))
			first := firstFatal(outb.String())
			r.Violations = append(r.Violations, replayFile{Property: j.Property, Invariant: "no-crash", Signature: "process-crash " + first,
				Message: fmt.Sprintf("the worker process died while executing case %d (seed %d): %s", idx, j.Seed, first), Seed: j.Seed, Case: idx, Tape: []int{},
				Desc: fmt.Sprintf("case %d of seed %d", idx, j.Seed), Detail: map[string]any{"output_tail": tail(outb.String(), 60), "sub": j.Sub}, TreeHash: j.TreeHash, Race: j.Sub == "race", Count: 1, Crash: true})
			if r.FaultFired == nil {
				r.FaultFired = map[string]int{}
			}
			r.FaultFired["worker-process-crash"]++
			return r, outb.String(), nil
		}
		return nil, outb.String(), fmt.Errorf("worker %d produced no result (%v, exit: %v)", j.Worker, err, werr)
	}
	var r workerResult
	if err := json.Unmarshal(b, &r); err != nil {
		return nil, outb.String(), err
	}
	return &r, outb.String(), nil
}

var hexRe = regexp.MustCompile(`0x[0-9a-fA-F]+`)

// firstFatal extracts and normalises the reason of a process death.
func firstFatal(out string) string {
	for _, l := range strings.Split(out, "\n") {
		l = strings.TrimSpace(l)
		if strings.HasPrefix(l, "fatal error:") || strings.HasPrefix(l, "panic:") || strings.HasPrefix(l, "runtime:") || strings.HasPrefix(l, "SIGSEGV") {
			l = hexRe.ReplaceAllString(l, "0x?")
			if len(l) > 120 {
				l = l[:120]
			}
			return l
		}
	}
	return "unknown reason"
}

func sigHash(s string) string {
	h := sha256.Sum256([]byte(s))
	return fmt.Sprintf("%x", h[:5])
}

func addStats(dst map[string]float64, src map[string]any) {
	for k, v := range src {
		if f, ok := v.(float64); ok {
			dst[k] += f
		}
	}
}

func check(id, tier string, seed uint64, cases int, budget float64, workers int) int {
	t0 := time.Now()
	tc, ok := tiers[id][tier]
	if !ok {
		fatal2("unknown property/tier %s/%s", id, tier)
	}
	if cases > 0 {
		tc.Cases = cases
	}
	if budget > 0 {
		tc.BudgetS = budget
	}
	if workers <= 0 {
		workers = runtime.NumCPU()
	}
	fmt.Printf("verifctl: property=%s tier=%s VERIF_SEED=%d cases=%d budget=%.0fs/worker workers=%d\n", id, tier, seed, tc.Cases, tc.BudgetS, workers)
	withRace := id == "C08"
	b := doBuild(withRace)
	defer os.RemoveAll(b.tmp)
	th := treeHash()
	fmt.Printf("verifctl: built simulator from %s working tree (tree %s) in %.1fs\n", repoDir, th, time.Since(t0).Seconds())

	type wr struct {
		r   *workerResult
		out string
		err error
		race bool
	}
	var mu sync.Mutex
	var results []wr
	var wg sync.WaitGroup
	gmp := []int{1, 4, 16}
	launch := func(bin string, tag string, nw int, cs int, bud float64, race bool) {
		for w := 0; w < nw; w++ {
			wg.Add(1)
			go func(w int) {
				defer wg.Done()
				// a worker whose resident size grows too much (runs that leave blocked
				// goroutines behind) stops and is restarted where it was
				deadline := time.Now().Add(time.Duration(bud * float64(time.Second)))
				start := 0
				for round := 0; round < 200; round++ {
					left := time.Until(deadline).Seconds()
					if left < 1 {
						break
					}
					rtag := fmt.Sprintf("%s-r%d", tag, round)
					j := job{Property: id, Tier: tier, Mode: "explore", Seed: seed, Worker: w, Workers: nw, Cases: cs, BudgetS: left, TreeHash: th, Start: start,
						HashOut: filepath.Join(b.tmp, fmt.Sprintf("hash-%s-%d.bin", rtag, w))}
					if race {
						j.Sub = "race"
					}
					r, out, err := runWorker(bin, j, gmp[w%3], b.tmp, rtag)
					mu.Lock()
					results = append(results, wr{r, out, err, race})
					mu.Unlock()
					if err != nil || r == nil {
						break
					}
					rf, ok := r.Extra["resume_from"].(float64)
					if !ok {
						break
					}
					start = int(rf)
					delete(r.Extra, "resume_from")
				}
			}(w)
		}
	}
	if withRace {
		np := workers * 5 / 8
		if np < 1 {
			np = 1
		}
		nr := workers - np
		if nr < 1 {
			nr = 1
		}
		launch(b.plain, "plain", np, tc.Cases, tc.BudgetS, false)
		launch(b.race, "race", nr, tc.Cases/5+1, tc.BudgetS, true)
	} else {
		launch(b.plain, "plain", workers, tc.Cases, tc.BudgetS, false)
	}
	wg.Wait()

	// merge
	trouble := []string{}
	totalRuns, totalCases, nonTrivial, inconcl := 0, 0, 0, 0
	raceRuns := 0
	stats := map[string]float64{}
	faults := map[string]int{}
	probes := map[string]int{}
	extra := map[string]any{}
	var samples []any
	var inconSamples []string
	hashes := map[uint64]struct{}{}
	bySig := map[string]*replayFile{}
	var sigOrder []string
	for _, x := range results {
		if x.err != nil {
			trouble = append(trouble, x.err.Error()+"\n"+tail(x.out, 40))
			continue
		}
		r := x.r
		if r.Error != "" {
			trouble = append(trouble, fmt.Sprintf("worker %d: %s", r.Worker, r.Error))
		}
		totalRuns += r.Runs
		if x.race {
			raceRuns += r.Runs
		}
		totalCases += r.Cases
		nonTrivial += r.NonTrivial
		inconcl += r.Inconclusive
		addStats(stats, r.Stats)
		for k, v := range r.FaultFired {
			faults[k] += v
		}
		for k, v := range r.Probes {
			probes[k] += v
		}
		for k, v := range r.Extra {
			if f, ok := v.(float64); ok {
				if o, ok := extra[k].(float64); ok {
					extra[k] = o + f
				} else {
					extra[k] = f
				}
			} else if _, ok := extra[k]; !ok {
				extra[k] = v
			}
		}
		if len(samples) < 5 {
			for _, s := range r.Samples {
				if len(samples) < 5 {
					samples = append(samples, s)
				}
			}
		}
		for _, s := range r.InconSamples {
			if len(inconSamples) < 5 {
				inconSamples = append(inconSamples, s)
			}
		}
		for i := range r.Violations {
			v := r.Violations[i]
			if o, ok := bySig[v.Signature]; ok {
				o.Count += v.Count
				if len(v.Tape) < len(o.Tape) && v.Minimised {
					c := o.Count
					*o = v
					o.Count = c
				}
				continue
			}
			bySig[v.Signature] = &v
			sigOrder = append(sigOrder, v.Signature)
		}
	}
	hfiles, _ := filepath.Glob(filepath.Join(b.tmp, "hash-*.bin"))
	for _, hf := range hfiles {
		bs, _ := os.ReadFile(hf)
		for i := 0; i+8 <= len(bs); i += 8 {
			hashes[binary.LittleEndian.Uint64(bs[i:])] = struct{}{}
		}
	}
	sort.Strings(sigOrder)

	// known findings
	kn := loadKnown()
	isKnown := func(sig string) *known {
		for i := range kn {
			if kn[i].kind == "finding" && kn[i].prop == id && kn[i].sig == sig {
				return &kn[i]
			}
		}
		return nil
	}
	os.MkdirAll(filepath.Join(outDir, "replays"), 0o755)
	if old, _ := filepath.Glob(filepath.Join(outDir, "replays", id+"-*.json")); len(old) > 0 {
		for _, f := range old {
			os.Remove(f)
		}
	}
	violations := 0
	knownHit := 0
	var vioList []map[string]any
	for _, sig := range sigOrder {
		v := bySig[sig]
		if k := isKnown(sig); k != nil {
			knownHit++
			fmt.Printf("KNOWN-FINDING: property=%s %s [sig=%q, seen %d times this run; e.g. %s]\n", id, k.text, sig, v.Count, oneLine(v.Message))
			continue
		}
		violations++
		path := filepath.Join(outDir, "replays", fmt.Sprintf("%s-%s.json", id, sigHash(sig)))
		jb, _ := json.MarshalIndent(v, "", " ")
		os.WriteFile(path, jb, 0o644)
		fmt.Printf("VIOLATION property=%s replay=%s\n", id, path)
		fmt.Printf("  invariant %s, signature %q, seen %d times; seed=%d case=%d tape %d -> %d entries (minimised=%v)\n  %s\n", v.Invariant, sig, v.Count, v.Seed, v.Case, v.OrigLen, len(v.Tape), v.Minimised, oneLine(v.Message))
		vioList = append(vioList, map[string]any{"signature": sig, "message": v.Message, "replay": path, "count": v.Count})
	}
	wall := time.Since(t0).Seconds()

	// evidence
	ev := map[string]any{
		"property_id": id,
		"tier":        tier,
		"seed":        int64(seed),
		"level":       levels[id],
		"wall_s":      wall,
		"violations":  violations,
		"assumptions": assumptions(id),
	}
	cov := map[string]any{
		"evaluations":            totalRuns,
		"distinct_nontrivial":    len(hashes),
		"rule":                   rules[id],
		"samples":                samples,
		"cases":                  totalCases,
		"nontrivial_runs":        nonTrivial,
		"runs_per_hour":          int(float64(totalRuns) / wall * 3600),
		"simulated_time_s":       stats["SimTime"] / 1e9,
		"scheduling_decisions":   int64(stats["Decisions"]),
		"interpreted_operations": int64(stats["Ops"]),
		"hook_events":            int64(stats["Hooks"]),
		"tasks_created":          int64(stats["Tasks"]),
		"fault_kinds_fired": mergeFaults(faults, map[string]int{
			"preempt-op-boundary":   int(stats["PreemptOp"]),
			"preempt-operand-fetch": int(stats["PreemptOperand"]),
			"preempt-statement":     int(stats["PreemptStmt"]),
			"task-switch":           int(stats["Switches"]),
			"stall":                 int(stats["Stalls"]),
			"start-delay":           int(stats["StartDelays"]),
			"mutex-busy-yield":      int(stats["LockWaits"]),
			"idle-clock-advance":    int(stats["IdleAdvances"]),
		}),
		"reach_probes": mergeFaults(probes, map[string]int{
			"two-tasks-in-same-statement-closure": int(stats["SameStmtPair"]),
			"tasks-blocked-in-the-runtime-when-the-cancel-fired": int(stats["WokenByDone"]),
		}),
		"distinct_interleavings_measure": "number of distinct 64-bit hashes over the sequence of (task, site, kind) scheduling decisions and of (task, operation site) operation starts, non-trivial runs only, merged over all workers",
		"inconclusive_runs":              inconcl,
		"inconclusive_samples":           inconSamples,
		"known_findings_seen":            knownHit,
		"new_violations":                 vioList,
		"components": map[string]any{
			"real": []string{"github.com/traefik/yaegi/interp (current working tree, woven through go build -overlay)", "github.com/traefik/yaegi/stdlib", "Go runtime, reflect, context, channels, sync.WaitGroup"},
			"stub": []string{"sync.Mutex/RWMutex as seen by scripts: real mutex acquired by TryLock + cooperative yield", "time: testing/synctest fake clock", "script stdout/stderr: discarded or in-memory buffer", "goroutine choice: the simulator's seeded scheduler instead of the Go scheduler"},
		},
		"workers":     workers,
		"worker_processes": len(results),
		"gomaxprocs":  gmp,
		"tree_hash":   th,
		"race_runs":   raceRuns,
		"extra":       extra,
		"harness_trouble": trouble,
	}
	if id == "C08" {
		cov["race_oracle"] = map[string]any{
			"runs_on_race_build":              raceRuns,
			"reports_attributed_to_yaegi":     faults["race-report-yaegi"],
			"reports_harness_internal":        faults["race-report-harness-internal"],
			"reports_unattributed":            faults["race-report-unattributed"],
			"worker_process_crashes":          faults["worker-process-crash"],
			"note":                            "harness-internal and unattributed reports must be 0; if not, the run is harness trouble (exit 2), never a violation",
		}
		if n := faults["race-report-harness-internal"] + faults["race-report-unattributed"]; n > 0 {
			trouble = append(trouble, fmt.Sprintf("%d race reports involve the harness or cannot be attributed: the race oracle cannot be trusted for this run", n))
			cov["harness_trouble"] = trouble
		}
	}
	ev["coverage"] = cov
	os.MkdirAll(filepath.Join(outDir, "evidence"), 0o755)
	eb, _ := json.MarshalIndent(ev, "", " ")
	if err := os.WriteFile(filepath.Join(outDir, "evidence", id+".json"), eb, 0o644); err != nil {
		fatal2("writing evidence: %v", err)
	}
	fmt.Printf("verifctl: %d runs (%d cases, %d non-trivial, %d distinct interleavings, %d inconclusive) in %.1fs; %d known findings seen, %d new violations\n",
		totalRuns, totalCases, nonTrivial, len(hashes), inconcl, wall, knownHit, violations)
	if violations > 0 {
		return 1
	}
	if len(trouble) > 0 {
		for _, t := range trouble {
			fmt.Fprintln(os.Stderr, "verifctl: harness trouble:", t)
		}
		return 2
	}
	if totalRuns == 0 {
		fmt.Fprintln(os.Stderr, "verifctl: no run was executed")
		return 2
	}
	return 0
}

func mergeFaults(a, b map[string]int) map[string]int {
	out := map[string]int{}
	for k, v := range a {
		out[k] += v
	}
	for k, v := range b {
		out[k] += v
	}
	return out
}

func oneLine(s string) string {
	s = strings.ReplaceAll(s, "\n", " ")
	if len(s) > 300 {
		s = s[:300] + "..."
	}
	return s
}

func tail(s string, n int) string {
	l := strings.Split(s, "\n")
	if len(l) > n {
		l = l[len(l)-n:]
	}
	return strings.Join(l, "\n")
}

func replay(path string) int {
	bs, err := os.ReadFile(path)
	if err != nil {
		fatal2("%v", err)
	}
	var rf replayFile
	if err := json.Unmarshal(bs, &rf); err != nil {
		fatal2("%v", err)
	}
	b := doBuild(rf.Race)
	defer os.RemoveAll(b.tmp)
	bin := b.plain
	if rf.Race {
		bin = b.race
	}
	abs, _ := filepath.Abs(path)
	j := job{Property: rf.Property, Mode: "replay", Replay: abs, BudgetS: 120, TreeHash: treeHash()}
	if rf.Crash {
		// re-execute exactly the case that killed the worker
		j = job{Property: rf.Property, Tier: "quick", Mode: "explore", Seed: rf.Seed, Worker: rf.Case, Workers: 1 << 30, Cases: rf.Case + 1, BudgetS: 300, TreeHash: treeHash()}
		if rf.Race {
			j.Sub = "race"
		}
		r, out, err := runWorker(bin, j, 4, b.tmp, "replay")
		if err != nil {
			fatal2("%v\n%s", err, tail(out, 40))
		}
		for _, v := range r.Violations {
			if v.Crash {
				fmt.Printf("VIOLATION property=%s replay=%s\n  the worker process died again on case %d: %s\n", rf.Property, abs, rf.Case, v.Signature)
				return 1
			}
		}
		fmt.Printf("verifctl: replay of %s: the process did not die this time (case %d)\n", abs, rf.Case)
		return 0
	}
	r, out, err := runWorker(bin, j, 4, b.tmp, "replay")
	if err != nil {
		fatal2("%v\n%s", err, tail(out, 40))
	}
	if th := treeHash(); rf.TreeHash != "" && th != rf.TreeHash {
		fmt.Printf("verifctl: note: replay file was recorded on tree %s, current tree is %s\n", rf.TreeHash, th)
	}
	if r.Reproduced {
		v := r.Violations[0]
		fmt.Printf("VIOLATION property=%s replay=%s\n  invariant %s, signature %q\n  %s\n", rf.Property, abs, v.Invariant, v.Signature, oneLine(v.Message))
		for _, s := range v.Schedule {
			fmt.Println("  ", s)
		}
		return 1
	}
	fmt.Printf("verifctl: replay of %s did not reproduce signature %q (%s) %v\n", abs, rf.Signature, r.Error, r.Extra)
	return 0
}

func main() {
	if len(os.Args) < 2 {
		fatal2("usage: verifctl check|replay|selftest ...")
	}
	if r := os.Getenv("VERIF_REPO"); r != "" {
		repoDir = r
	}
	if o := os.Getenv("VERIF_OUT_DIR"); o != "" {
		outDir = o
	}
	switch os.Args[1] {
	case "check":
		fs := flag.NewFlagSet("check", flag.ExitOnError)
		tier := fs.String("tier", "", "quick|thorough")
		seed := fs.Uint64("seed", 0, "seed (default VERIF_SEED or 1)")
		cases := fs.Int("cases", 0, "override number of cases")
		budget := fs.Float64("budget", 0, "override per-worker wall budget (s)")
		workers := fs.Int("workers", 0, "worker processes")
		if len(os.Args) < 3 {
			fatal2("usage: verifctl check <ID> --tier quick|thorough")
		}
		id := os.Args[2]
		fs.Parse(os.Args[3:])
		if *tier == "" {
			*tier = os.Getenv("VERIF_TIER")
		}
		if *tier == "" {
			*tier = "quick"
		}
		if *seed == 0 {
			if s := os.Getenv("VERIF_SEED"); s != "" {
				if v, err := strconv.ParseInt(s, 10, 64); err == nil {
					*seed = uint64(v)
				}
			}
		}
		if *seed == 0 {
			*seed = 1
		}
		os.Exit(check(id, *tier, *seed, *cases, *budget, *workers))
	case "replay":
		if len(os.Args) < 3 {
			fatal2("usage: verifctl replay <file>")
		}
		os.Exit(replay(os.Args[2]))
	case "selftest":
		if len(os.Args) < 3 {
			fatal2("usage: verifctl selftest determinism")
		}
		os.Exit(selftest(os.Args[2], os.Args[3:]))
	default:
		fatal2("unknown command %s", os.Args[1])
	}
}
