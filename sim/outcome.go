package sim

import (
	"fmt"
	"sort"
)

// Violation is one broken invariant found in one run.
type Violation struct {
	Property  string `json:"property"`
	Invariant string `json:"invariant"`
	// Signature identifies what failed (invariant + construct responsible), not
	// the seed: it is what known_findings.txt lists.
	Signature string `json:"signature"`
	Message   string `json:"message"`
}

// Outcome is the result of one simulated run.
type Outcome struct {
	Violations   []Violation
	Stats        RunStats
	TraceHash    uint64
	NonTrivial   bool
	Inconclusive string // harness trouble: never a violation
	Desc         string // human description of the case
	Detail       map[string]any
	Tape         []int
	Schedule     []string // human readable decisions (filled on demand)
	FaultFired   map[string]int
	N            int64 // operations executed
	H            int64 // hook events
}

func (o *Outcome) addV(prop, inv, sig, msg string, a ...any) {
	o.Violations = append(o.Violations, Violation{prop, inv, sig, fmt.Sprintf(msg, a...)})
}

// Signatures returns the sorted distinct signatures.
func (o *Outcome) Signatures() []string {
	m := map[string]bool{}
	for _, v := range o.Violations {
		m[v.Signature] = true
	}
	var s []string
	for k := range m {
		s = append(s, k)
	}
	sort.Strings(s)
	return s
}

// HasSig reports whether a violation with that signature is present.
func (o *Outcome) HasSig(sig string) bool {
	for _, v := range o.Violations {
		if v.Signature == sig {
			return true
		}
	}
	return false
}

// ScheduleOf renders the decisions of a run.
func ScheduleOf(r *Run) []string {
	var out []string
	tasks := r.Tasks()
	for _, d := range r.Decisions {
		name := "?"
		if d.Task < len(tasks) {
			name = tasks[d.Task].Name
		}
		out = append(out, fmt.Sprintf("step %d: grant %s at %s (%s) quantum=%d of %d candidates", d.N, name, SiteString(d.Site), kindName[d.Kind], d.Quantum, d.NCand))
		if r.Cancelled.Load() && d.N == r.CancelDecision {
			out = append(out, fmt.Sprintf("step %d: FAULT cancel fired after this decision", d.N))
		}
	}
	return out
}

// AddStats accumulates b into a.
func (a *RunStats) Add(b *RunStats) {
	a.Decisions += b.Decisions
	a.Ops += b.Ops
	a.Hooks += b.Hooks
	a.PreemptOp += b.PreemptOp
	a.PreemptOperand += b.PreemptOperand
	a.PreemptStmt += b.PreemptStmt
	a.Switches += b.Switches
	a.Stalls += b.Stalls
	a.StartDelays += b.StartDelays
	a.LockWaits += b.LockWaits
	a.CancelRunning += b.CancelRunning
	a.CancelBlocked += b.CancelBlocked
	a.IdleAdvances += b.IdleAdvances
	a.SameStmtPair += b.SameStmtPair
	a.WokenByDone += b.WokenByDone
	a.SimTime += b.SimTime
	a.Tasks += b.Tasks
}
