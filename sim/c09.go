package sim

import (
	"context"
	"fmt"
	"io"
	"reflect"
	"strings"
	"sync/atomic"
	"testing"
	"testing/fstest"
	"time"

	"github.com/traefik/yaegi/interp"
	"github.com/traefik/yaegi/stdlib"
	"verif/sim/host"
)

// C09: cancellation stops all interpreted activity promptly (DESIGN 4, C09).

const c09KMax = 1 << 14

// tape slots with a fixed position (the k-sweep overrides slot 0).
const c09SlotK = 0

// simCtx is a context the simulator cancels; used for the deadline flavour.
type simCtx struct {
	context.Context
	done chan struct{}
	err  atomic.Value
}

func (c *simCtx) Done() <-chan struct{} { return c.done }
func (c *simCtx) Err() error {
	if e, ok := c.err.Load().(error); ok {
		return e
	}
	return nil
}
func (c *simCtx) Deadline() (time.Time, bool) { return time.Time{}, false }

// SchedCfg draws the scheduling knobs of a run from the tape (swarm style).
func SchedCfg(tape *Tape, intraOp bool) RunCfg {
	cfg := RunCfg{}
	cfg.QuantumMax = [...]int{0, 1, 2, 4, 8, 16}[tape.Choose(6)]
	if intraOp {
		nh := [...]int{0, 1, 2, 4, 8, 24}[tape.Choose(6)]
		ns := len(interp.VerifSites)
		for i := 0; i < nh; i++ {
			cfg.HotSites = append(cfg.HotSites, tape.Choose(ns))
		}
		cfg.YieldBudget = [...]int{0, 8, 40, 150}[tape.Choose(4)]
		cfg.StallMax = [...]int{0, 0, 2, 6}[tape.Choose(4)]
	}
	cfg.StartDelay = true
	cfg.SelSeed = uint64(tape.Choose(1 << 16))
	return cfg
}

// NewInterpFS builds an interpreter with the standard symbol tables, the
// cooperative sync types and the host package.
func NewInterpFS(fsys fstest.MapFS) *interp.Interpreter {
	opt := interp.Options{Stdout: io.Discard, Stderr: io.Discard}
	if fsys != nil {
		opt.SourcecodeFilesystem = fsys
		opt.GoPath = "./_pkg"
	}
	return NewInterpOpt(opt)
}

// NewInterpOpt returns an interpreter with the given options and the harness's
// symbol tables.
func NewInterpOpt(opt interp.Options) *interp.Interpreter {
	i := interp.New(opt)
	if err := i.Use(stdlib.Symbols); err != nil {
		panic(err)
	}
	if err := i.Use(SyncOverride); err != nil {
		panic(err)
	}
	if err := i.Use(host.Symbols); err != nil {
		panic(err)
	}
	return i
}

var entryName = [...]string{"EvalWithContext", "ExecuteWithContext", "EvalPathWithContext", "EvalWithContext(bg,decls);EvalWithContext(ctx,call)"}

type c09Ret struct {
	done      atomic.Bool
	v         reflect.Value
	err       error
	atQuiesce bool
}

// RunC09 executes one (program, schedule, k) case.
func RunC09(t *testing.T, tape *Tape) *Outcome {
	o := &Outcome{Detail: map[string]any{}, FaultFired: map[string]int{}}
	k := tape.Choose(c09KMax + 1)
	entry := tape.Choose(4)
	mode := tape.Choose(4) // 0,1: cancel at operation k; 2: cancel at hook event; 3: deadline flavour with sleeping actors
	withImport := entry == 2 && tape.Choose(2) == 1
	// REPL style: the session goes on at once after the cancelled call returned
	// (the follow-up evaluation refreshes the root frame while leftovers of the
	// cancelled run may still be parked), or only after they are gone
	earlyFollow := entry == 3 && tape.Choose(2) == 1
	// ... and its first step is a call given the SAME, already cancelled context:
	// it must return the context's error and execute nothing
	reuseCtx := earlyFollow && tape.Choose(2) == 1
	// REPL style: an earlier, successful evaluation of the session has left
	// goroutines behind (a second activation of the actor tree); the later
	// cancellation concerns every interpreted goroutine
	background := entry == 3 && tape.Choose(3) == 2
	// REPL style: a second host goroutine evaluates another activation of the
	// actor tree on the same interpreter under the SAME context, concurrently
	// (the session goes on only when both have returned: a follow-up evaluation
	// started while the second caller has not yet run its stop() would be cancelled
	// by it — one generation counter per interpreter — which is not what is judged)
	twin := entry == 3 && !background && !earlyFollow && tape.Choose(4) == 3
	// REPL style, declarations through plain Eval (no context yet: the interpreter
	// has no cancellation channel), then a plain Eval which executes the program's
	// select-warm statements once without blocking, then the cancellable call.
	// The blocking constructs of these programs are select and range only (plain
	// send/receive compiled before the first context use are not cancellable:
	// DESIGN 8.3, not claimed).
	plainDecl := entry == 3 && !background && !twin && tape.Choose(3) == 0
	prog := GenC09Opt(tape, mode == 3, withImport, plainDecl)
	cfg := SchedCfg(tape, true)
	if tape.Choose(4) == 3 {
		// preemption between the statements of stop(): the order in which the
		// generation advances and the cancellation channel is closed matters
		for i, st := range interp.VerifSites {
			if st.File == "interp.go" && st.Func == "stop" && (st.Kind == "stmt" || st.Kind == "lock") {
				cfg.AlwaysSites = append(cfg.AlwaysSites, i)
			}
		}
	}
	cfg.MaxOps = 1500
	cfg.MaxDecisions = 6000
	o.Desc = fmt.Sprintf("k=%d entry=%s mode=%d %s", k, entryName[entry], mode, prog.Desc)
	o.Detail["k"] = k
	o.Detail["entry"] = entryName[entry]
	o.Detail["mode"] = mode
	o.Detail["program"] = prog.Src
	o.Detail["bodies"] = prog.Desc
	for _, b := range prog.Bodies {
		o.FaultFired["probe:runs-with-body-"+bodyName[b]]++
	}
	if earlyFollow {
		o.Desc += " +follow-up-eval-at-once"
		o.Detail["early_follow_up"] = true
	}
	if plainDecl {
		o.Desc += " +declarations-and-warm-up-through-plain-Eval"
		o.Detail["plain_declarations"] = true
		o.FaultFired["probe:sessions-declared-and-warmed-up-through-plain-Eval"]++
	}
	if background {
		o.Desc += " +goroutines-of-earlier-eval"
		o.Detail["background_goroutines"] = true
	}
	if twin {
		o.Desc += " +concurrent-evaluation-under-the-same-context"
		o.Detail["twin_evaluation"] = true
	}
	if withImport {
		o.Desc += " +source-import"
		o.Detail["source_import"] = true
	}

	var sink *host.Sink
	var ret c09Ret
	var ret2 c09Ret
	var ret3 c09Ret // call given the already cancelled context again
	var retT c09Ret // the concurrent twin evaluation
	var twinPanic any
	var clientPanic any // a panic of the interpreter's entry point in the calling host goroutine
	var ctx context.Context
	var eventsAtCancel int
	var inter *interp.Interpreter
	var compileErr error
	var wantErr error
	var opsAtCancel int64
	var lateCancel bool
	rootName := "c0.0"
	if entry == 3 {
		rootName = "c0.1" // c0.0 evaluated the declarations
		if background {
			rootName = "c0.2" // c0.1 evaluated the call which started the background actors
		}
		if plainDecl {
			rootName = "c0.0" // plain Eval runs on the caller's goroutine
		}
	}

	res := Simulate(t, tape, cfg, func(r *Run) {
		sink = r.NewSink(8192, nil)
		host.Cur.Store(sink)
		var fsys fstest.MapFS
		if entry == 2 {
			fsys = fstest.MapFS{"main.go": &fstest.MapFile{Data: []byte(prog.Src)}}
			if withImport {
				fsys["_pkg/src/dep/dep.go"] = &fstest.MapFile{Data: []byte(C09DepSrc)}
			}
		}
		inter = NewInterpFS(fsys)
		var cancel func()
		if mode == 3 {
			sc := &simCtx{Context: context.Background(), done: make(chan struct{})}
			ctx = sc
			cancel = func() { sc.err.Store(context.DeadlineExceeded); close(sc.done) }
		} else {
			ctx, cancel = context.WithCancel(context.Background())
		}
		r.SetCancel(cancel, func() {
			eventsAtCancel = len(sink.Events())
			opsAtCancel = r.totalOps.Load()
			for _, tk := range r.Tasks() {
				if tk.Name == rootName && tk.Exited() {
					// the evaluation had completed: the caller may legitimately
					// return its result; nothing is left to cancel.
					lateCancel = true
				}
			}
		}, func() { ret.atQuiesce = ret.done.Load() })
		arm := func() {
			if k <= 0 {
				return
			}
			baseOps, baseHooks := r.totalOps.Load(), r.hookCalls.Load()
			switch mode {
			case 0, 1:
				r.CancelAtOp = baseOps + int64(k)
			case 2:
				r.CancelAtHook = baseHooks + int64(k)*5
			case 3:
				r.CancelAtOp = baseOps + int64(k)
				r.CancelAtTime = time.Since(r.start) + time.Duration(k%23)*500*time.Microsecond
			}
			r.CancelOnIdle = true
		}
		if entry != 3 {
			arm()
		}
		ready := make(chan struct{})
		if twin {
			r.Spawn("c1", func() {
				defer func() {
					if p := recover(); p != nil {
						if _, ok := p.(abortSentinel); ok {
							panic(p)
						}
						twinPanic = p
					}
					retT.done.Store(true)
				}()
				<-ready
				retT.v, retT.err = inter.EvalWithContext(ctx, "Twin_()")
			})
		}
		r.WatchClient(r.Spawn("c0", func() {
			defer func() {
				if p := recover(); p != nil {
					if _, ok := p.(abortSentinel); ok {
						panic(p)
					}
					clientPanic = p
					r.MarkReturned()
					r.Finish()
				}
			}()
			switch entry {
			case 0:
				ret.v, ret.err = inter.EvalWithContext(ctx, prog.Src)
			case 1:
				var p *interp.Program
				p, compileErr = inter.Compile(prog.Src)
				if compileErr != nil {
					ret.err = compileErr
					break
				}
				ret.v, ret.err = inter.ExecuteWithContext(ctx, p)
			case 2:
				ret.v, ret.err = inter.EvalPathWithContext(ctx, "main.go")
			case 3:
				// REPL style: declarations first (package initialisation runs here,
				// uncancelled), then the cancellable call. No symbol "main" exists, so
				// later evaluations do not re-run the program.
				decls := strings.Replace(prog.Src, "func main() {", "func Main_() {", 1)
				if background {
					decls += fmt.Sprintf("\nfunc Bg_() {\n\tgo actor%d()\n}\n", prog.Root)
				}
				if twin {
					decls += fmt.Sprintf("\nfunc Twin_() {\n\thost.Tick(802)\n\tactor%d()\n\thost.Tick(803)\n}\n", prog.Root)
				}
				// (EvalWithContext, as the yaegi REPL does, so that the declarations are
				// compiled in the cancellable channel mode the property is about.)
				if plainDecl {
					decls += "\nfunc Warm_() {\n"
					for _, id := range prog.Warm {
						decls += fmt.Sprintf("\tsw%d(true)\n", id)
					}
					decls += "}\n"
					if _, compileErr = inter.Eval(decls); compileErr == nil {
						_, compileErr = inter.Eval("Warm_()")
					}
				} else {
					_, compileErr = inter.EvalWithContext(context.Background(), decls)
				}
				if compileErr != nil {
					ret.err = compileErr
					break
				}
				if background {
					if _, compileErr = inter.EvalWithContext(context.Background(), "Bg_()"); compileErr != nil {
						ret.err = compileErr
						break
					}
				}
				arm() // k counts from the start of the cancellable call
				close(ready)
				ret.v, ret.err = inter.EvalWithContext(ctx, "Main_()")
			}
			r.MarkReturned()
			ret.done.Store(true)
			if reuseCtx && r.Cancelled.Load() {
				ret3.v, ret3.err = inter.EvalWithContext(ctx, "host.Tick(950)")
				ret3.done.Store(true)
			}
			if earlyFollow && r.Cancelled.Load() {
				ret2.v, ret2.err = inter.EvalWithContext(context.Background(), "1+1")
				ret2.done.Store(true)
			}
			r.Finish()
		}))
	}, func(r *Run) {
		wantErr = ctx.Err()
		// I6: the interpreter is still usable.
		if !r.Cancelled.Load() || r.aborting.Load() || entry != 3 || earlyFollow {
			return
		}
		r.Spawn("c2", func() {
			ret2.v, ret2.err = inter.EvalWithContext(context.Background(), "1+1")
			ret2.done.Store(true)
		})
		r.Loop()
	})
	r := res.Run
	fillOutcome(o, &res)
	if res.HarnessErr != "" {
		o.Inconclusive = "harness panic: " + res.HarnessErr
		return o
	}
	if compileErr != nil {
		o.Inconclusive = "generated program does not compile: " + compileErr.Error()
		return o
	}
	evs := sink.Events()
	if sink.Overflow() {
		o.Inconclusive = "event sink overflow"
		return o
	}
	tasks := r.Tasks()
	for _, tk := range tasks {
		if tk.Panic != nil {
			if tk.Client {
				o.Inconclusive = fmt.Sprintf("client task %s panicked: %v", tk.Name, tk.Panic)
				return o
			}
		}
	}
	// a goroutine of the script that dies with a panic would take a real process
	// down: no program of the family panics
	for _, tk := range tasks {
		if !tk.Client && tk.Panic != nil {
			msg := fmt.Sprint(tk.Panic)
			if len(msg) > 160 {
				msg = msg[:160]
			}
			o.addV("C09", "I0", "I0 task-panic", "task %s died with a panic: %s", tk.Name, msg)
		}
	}
	if !r.Cancelled.Load() {
		// fault-free run (or the program ended before k): the program must simply
		// be accepted and run without error.
		if ret.done.Load() && ret.err != nil {
			if _, isPanic := ret.err.(interp.Panic); !isPanic {
				o.Inconclusive = "fault-free run failed: " + ret.err.Error()
			} else {
				msg := ret.err.Error()
				if len(msg) > 160 {
					msg = msg[:160]
				}
				o.addV("C09", "I0", "I0 fault-free-run-panic", "%s of a program of the family failed without any cancellation: %s", entryName[entry], msg)
			}
		}
		return o
	}
	if lateCancel {
		o.Detail["late_cancel"] = true
		return o
	}
	o.NonTrivial = true
	if r.Stats.CancelRunning > 0 {
		o.FaultFired["cancel-running"]++
	} else {
		o.FaultFired["cancel-blocked"]++
	}
	if mode == 3 {
		o.FaultFired["deadline-flavour"]++
	}
	// which actor runs on which task, which construct it is
	bodyOf := map[int]string{}
	for _, e := range evs {
		if e.Kind == host.KTick && e.Tag < 100 && e.Task >= 0 {
			if _, ok := bodyOf[e.Task]; !ok {
				if b, ok := prog.BodyOf[e.Tag]; ok {
					bodyOf[e.Task] = bodyName[b]
				}
			}
		}
	}
	phase := "pkg-init"
	for _, e := range evs[:eventsAtCancel] {
		if e.Kind == host.KTick && e.Tag == 800 {
			phase = "main"
			break
		}
	}
	if opsAtCancel == 0 {
		phase = "startup"
	}
	o.Detail["phase"] = phase
	if entry == 3 {
		phase += " style=repl"
	}
	if earlyFollow {
		phase = "any style=repl follow-up=at-once"
	}
	if phase == "pkg-init" {
		o.FaultFired["cancel-during-pkg-init"]++
	}
	kindOf := func(tk *Task) string {
		if background && strings.HasPrefix(tk.Name, "c0.1.") {
			b := "unknown"
			if bb, ok := bodyOf[tk.idx]; ok {
				b = bb
			}
			return "earlier-eval-goroutine:" + b
		}
		if earlyFollow {
			// the listed finding concerns code running in the shared root frame
			// (the evaluation's own goroutine); goroutines that existed when the
			// call returned have frames of their own and must stay dead
			if tk.Name == rootName {
				return "root"
			}
			return "goroutine"
		}
		if !strings.HasPrefix(phase, "main") {
			return "any" // one root cause whatever the actors are
		}
		if b, ok := bodyOf[tk.idx]; ok {
			return b
		}
		if tk.Name == rootName {
			return "root"
		}
		return "unknown"
	}

	// With a concurrent twin evaluation, the code of either evaluation that runs in
	// the shared root frame may resume when the other evaluation starts and
	// refreshes the root frame's run id: the listed finding ("follow-up=at-once"),
	// with the twin in the role of the next evaluation. Not judged a second time;
	// the goroutines started by both evaluations are.
	twinRoot := func(tk *Task) bool { return twin && (tk.Name == rootName || tk.Name == "c1.0") }
	// I1
	want := wantErr
	if clientPanic != nil {
		msg := fmt.Sprint(clientPanic)
		if len(msg) > 120 {
			msg = msg[:120]
		}
		o.addV("C09", "I1", "I1 call-panicked phase="+phase, "%s panicked in the calling goroutine: %s", entryName[entry], msg)
		return o
	}
	switch {
	case !ret.done.Load() && r.BudgetHit:
		// reported below as still-running
	case !ret.done.Load():
		o.addV("C09", "I1", "I1 call-never-returned phase="+phase, "%s did not return after cancellation (tasks left: %v)", entryName[entry], res.Left)
	case ret.err != want:
		o.addV("C09", "I1", "I1 wrong-error phase="+phase, "%s returned error %v, want the context's error %v", entryName[entry], ret.err, want)
	case ret.v.IsValid():
		o.addV("C09", "I1", "I1 valid-result phase="+phase, "%s returned a valid value %v together with the context's error", entryName[entry], ret.v)
	}
	// I2
	if r.ClientBlockedAfterCancel {
		o.addV("C09", "I2", "I2 late-return phase="+phase, "%s was still blocked at a quiescent point after the cancellation: its return depended on other tasks making progress", entryName[entry])
	}
	// I3, I4
	for _, tk := range tasks {
		if tk.Client || !(strings.HasPrefix(tk.Name, "c0.") || strings.HasPrefix(tk.Name, "c1.")) || (r.TasksAtReturn > 0 && tk.idx >= r.TasksAtReturn) || twinRoot(tk) {
			continue
		}
		if tk.OpsPostFault > 1 {
			o.addV("C09", "I3", fmt.Sprintf("I3 ops-after-cancel phase=%s body=%s", phase, kindOf(tk)),
				"task %s (%s) started %d interpreted operations after the cancellation (at most the one in flight is allowed)", tk.Name, kindOf(tk), tk.OpsPostFault)
		}
		if tk.HostPostFault > 1 {
			via := "op"
			nd, nn := 0, 0
			var ids []int
			for _, e := range evs {
				if e.Post && e.Task == tk.idx {
					if len(ids) < 8 {
						ids = append(ids, e.Tag)
					}
					if e.Tag >= 500 && e.Tag < 700 {
						nd++
					} else {
						nn++
					}
				}
			}
			if nd >= 1 && nn <= 1 && tk.OpsPostFault <= 1 {
				// at most the operation in flight, plus deferred host calls run by
				// the unwinding of the cancelled function
				via = "deferred-host-call"
			} else if tk.OpsPostFault > 1 {
				via = "ops"
			}
			sig := fmt.Sprintf("I4 side-effects-after-cancel phase=%s via=%s", phase, via)
			if earlyFollow {
				sig += " task=" + kindOf(tk)
			}
			if via == "deferred-host-call" {
				sig = "I4 side-effects-after-cancel via=deferred-host-call"
			}
			o.addV("C09", "I4", sig,
				"task %s (%s) performed %d host side effects %v after the cancellation", tk.Name, kindOf(tk), tk.HostPostFault, ids)
		}
	}
	// I9: a goroutine released from a channel operation by the cancellation starts
	// no further operation (whenever that happens, before or after the return)
	for _, tk := range tasks {
		if tk.Client || !tk.ReleasedByDone || (r.TasksAtReturn > 0 && tk.idx >= r.TasksAtReturn) || twinRoot(tk) {
			continue
		}
		if earlyFollow && tk.Name == rootName {
			// the listed finding (root-frame code resumed by the next evaluation) is
			// reported by I3-I5 for this task
			continue
		}
		o.FaultFired["goroutines-released-by-the-cancellation-channel"]++
		if n := tk.Ops - tk.OpsAtRelease; n > 0 {
			b := bodyOf[tk.idx]
			if b == "" {
				b = "unknown"
			}
			o.addV("C09", "I9", "I9 ops-after-release-by-cancellation body="+b, "task %s (%s) was released from a channel operation by the cancellation and started %d more interpreted operations", tk.Name, b, n)
		}
	}
	// I5
	if r.BudgetHit && !r.Returned.Load() {
		o.Inconclusive = "step budget exhausted before the cancelled call was scheduled to return"
		o.Violations = nil
		return o
	}
	if r.BudgetHit && !twin {
		// Tasks that keep executing after the return are reported by I3 (more than the
		// one operation in flight each). If nobody exceeded that allowance, the
		// budget simply ran out shortly after a late return (many busy goroutines,
		// a large k): nothing can be said about who would have exited.
		over := false
		for _, v := range o.Violations {
			if v.Invariant == "I3" || v.Invariant == "I4" || v.Invariant == "I9" {
				over = true
			}
		}
		if !over {
			o.Inconclusive = "step budget exhausted shortly after the cancelled call returned"
			o.Violations = nil
			return o
		}
		o.addV("C09", "I5", "I5 still-running phase="+phase, "tasks kept executing after the cancellation until the step budget was exhausted")
	}
	for _, tk := range tasks {
		if tk.Client || !(strings.HasPrefix(tk.Name, "c0.") || strings.HasPrefix(tk.Name, "c1.")) || (r.TasksAtReturn > 0 && tk.idx >= r.TasksAtReturn) || !contains(res.Left, tk.Name) || r.BudgetHit || twinRoot(tk) {
			continue
		}
		sig := fmt.Sprintf("I5 goroutine-not-exited phase=%s body=%s", phase, kindOf(tk))
		if bodyOf[tk.idx] == "recv-in-literal" && entry == 1 {
			// (listed finding: literals compiled by Compile before the interpreter's
			// first cancellable evaluation keep non-cancellable channel operations;
			// whatever the phase the cancellation fell in)
			sig = "I5 goroutine-not-exited body=recv-in-literal entry=compile+execute"
		}
		o.addV("C09", "I5", sig,
			"task %s (%s) never exited after the cancellation (state at end: %s)", tk.Name, kindOf(tk), r.describeTask(tk))
	}
	// I8: the concurrent evaluation under the same context
	if twin {
		o.FaultFired["concurrent-evaluation-under-the-same-context"]++
		switch {
		case twinPanic != nil:
			msg := fmt.Sprint(twinPanic)
			if len(msg) > 120 {
				msg = msg[:120]
			}
			o.addV("C09", "I8", "I8 concurrent-evaluation panicked", "the second EvalWithContext under the same context panicked in its caller: %s", msg)
		case !retT.done.Load():
			if !r.BudgetHit {
				o.addV("C09", "I8", "I8 concurrent-evaluation never-returned", "the second EvalWithContext under the same context did not return after the cancellation")
			}
		case retT.err == nil:
			// the twin's evaluation was ended by the first caller's stop(); its own
			// caller then finds both its context cancelled and its evaluation over,
			// and the (native) select of the entry point may take either branch: the
			// Go runtime chooses, not the simulator, and no property decides
		case retT.err != wantErr:
			o.addV("C09", "I8", "I8 concurrent-evaluation wrong-error", "the second EvalWithContext under the same context returned %v (value %v), want %v", retT.err, retT.v, wantErr)
		}
	}
	// I7: an evaluation given an already cancelled context
	if reuseCtx && ret3.done.Load() {
		o.FaultFired["evaluation-given-the-cancelled-context-again"]++
		if ret3.err != wantErr {
			o.addV("C09", "I7", "I7 expired-context wrong-error", "EvalWithContext given the already cancelled context returned %v (value %v), want %v", ret3.err, ret3.v, wantErr)
		}
		// (Whether some of the source executes before the caller has run stop() is a
		// race between the two goroutines which no property decides: not judged.)
	}
	// I6
	if entry == 3 && (!r.aborting.Load() || ret2.done.Load()) {
		switch {
		case !ret2.done.Load():
			o.addV("C09", "I6", "I6 follow-up-eval-stuck", "a following EvalWithContext(\"1+1\") did not return")
		case ret2.err != nil:
			o.addV("C09", "I6", "I6 follow-up-eval-error", "a following EvalWithContext(\"1+1\") failed: %v", ret2.err)
		case !ret2.v.IsValid() || !ret2.v.CanInt() || ret2.v.Int() != 2:
			o.addV("C09", "I6", "I6 follow-up-eval-value", "a following EvalWithContext(\"1+1\") returned %v", ret2.v)
		}
	}
	return o
}

func contains(l []string, s string) bool {
	for _, x := range l {
		if x == s {
			return true
		}
	}
	return false
}

func (r *Run) describeTask(t *Task) string {
	st := stateName(t.state.Load())
	if t.state.Load() == tParked {
		st += " at " + SiteString(t.parkSite)
	}
	return st
}

// fillOutcome copies what the run measured.
func fillOutcome(o *Outcome, res *SimResult) {
	r := res.Run
	if r == nil {
		o.Inconclusive = "no run: " + res.BubbleErr
		return
	}
	o.Stats = r.Stats
	o.TraceHash = r.TraceHash()
	o.Tape = append([]int(nil), r.Tape.Drawn...)
	o.N = r.Stats.Ops
	o.H = r.Stats.Hooks
	o.Schedule = ScheduleOf(r)
	if res.BubbleErr != "" {
		o.Detail["bubble"] = res.BubbleErr
	}
	if r.Deadlock {
		o.Detail["deadlock"] = r.DeadlockInfo
	}
}

func init() {
	Props["C09"] = &PropDef{ID: "C09", Run: RunC09, Case: caseC09}
}

// caseC09 is one (program, schedule) pair: a fault-free run measures N, then
// every cancellation point k = 1..N+1 is executed (N+1 = cancel once every task
// is blocked).
func caseC09(t *testing.T, c *CaseCtx, idx int) {
	base := NewTape(Mix(c.Job.Seed, uint64(idx), 0))
	base.Forced = map[int]int{c09SlotK: 0}
	o0 := RunC09(t, base)
	c.Emit(o0)
	if o0.Inconclusive != "" {
		return
	}
	kcap := 400
	if c.Quick {
		kcap = 90
	}
	n := int(o0.N)
	if mode, _ := o0.Detail["mode"].(int); mode == 2 {
		n = int(o0.H) / 5
	}
	if n > kcap {
		n = kcap
	}
	for k := 1; k <= n+1; k++ {
		if c.Stop() {
			return
		}
		tp := PrefixTape(o0.Tape, Mix(c.Job.Seed, uint64(idx), uint64(k)))
		tp.Forced = map[int]int{c09SlotK: k}
		c.Emit(RunC09(t, tp))
	}
}
