package sim

import (
	"fmt"
	"testing"
	"time"
)

func TestC08Dev(t *testing.T) {
	t0 := time.Now()
	sigs := map[string]int{}
	n := 600
	for seed := uint64(0); seed < uint64(n); seed++ {
		o := RunC08(t, NewTape(Mix(1, seed, 8)))
		if o.Inconclusive != "" {
			fmt.Printf("seed %d INCONCLUSIVE %s :: %s\n", seed, o.Inconclusive, o.Desc)
			continue
		}
		for _, v := range o.Violations {
			if sigs[v.Signature] == 0 {
				fmt.Printf("seed %d %s\n   %s\n   %s\n", seed, o.Desc, v.Signature, v.Message)
			}
			sigs[v.Signature]++
		}
	}
	fmt.Printf("%d runs in %v\n", n, time.Since(t0))
	for s, c := range sigs {
		fmt.Printf("%6d %s\n", c, s)
	}
}
