package sim

import (
	"fmt"
	"os"
	"testing"
	"time"
)

func TestC09Dev(t *testing.T) {
	t0 := time.Now()
	runs := 0
	sigs := map[string]int{}
	first := map[string]*Outcome{}
	for seed := uint64(0); seed < 40; seed++ {
		base := NewTape(Mix(seed, 1))
		base.Forced = map[int]int{c09SlotK: 0}
		o := RunC09(t, base)
		runs++
		if o.Inconclusive != "" {
			fmt.Printf("seed %d INCONCLUSIVE %s\n%s\n", seed, o.Inconclusive, o.Detail["program"])
			continue
		}
		n := int(o.N)
		if n > 120 {
			n = 120
		}
		fmt.Printf("seed %d N=%d H=%d dec=%d %s bubble=%v\n", seed, o.N, o.H, o.Stats.Decisions, o.Desc, o.Detail["bubble"])
		for k := 1; k <= n+1; k++ {
			tp := PrefixTape(o.Tape, Mix(seed, 2, uint64(k)))
			tp.Forced = map[int]int{c09SlotK: k}
			ok := RunC09(t, tp)
			runs++
			if ok.Inconclusive != "" {
				fmt.Printf("  k=%d INCONCLUSIVE %s\n", k, ok.Inconclusive)
			}
			for _, v := range ok.Violations {
				sigs[v.Signature]++
				if first[v.Signature] == nil {
					first[v.Signature] = ok
					fmt.Printf("  k=%d %s: %s\n", k, v.Signature, v.Message)
				}
			}
		}
	}
	fmt.Printf("%d runs in %v\n", runs, time.Since(t0))
	for s, n := range sigs {
		fmt.Printf("%6d %s\n", n, s)
	}
	if os.Getenv("C09_SHOW") != "" {
		for s, o := range first {
			fmt.Printf("==== %s\n%s\n%s\n", s, o.Desc, o.Detail["program"])
		}
	}
}
