package sim

import (
	"encoding/binary"
	"encoding/json"
	"fmt"
	"os"
	"sort"
	"strings"
	"testing"
	"time"
)

// Job is what the driver asks one worker process to do.
type Job struct {
	Property string  `json:"property"`
	Tier     string  `json:"tier"`
	Mode     string  `json:"mode"` // explore | replay | determinism
	Seed     uint64  `json:"seed"`
	Worker   int     `json:"worker"`
	Workers  int     `json:"workers"`
	Cases    int     `json:"cases"`    // total cases over all workers (worker w runs cases w, w+Workers, ...)
	BudgetS  float64 `json:"budget_s"` // wall-clock budget of this worker
	Replay   string  `json:"replay"`   // replay file (mode replay)
	Out      string  `json:"out"`      // result file
	HashOut  string  `json:"hash_out"` // binary file of trace hashes
	Race     bool    `json:"race"`
	TreeHash string  `json:"tree_hash"`
	Start    int     `json:"start"`      // first case index to consider (resuming after a recycled worker)
	MaxRSSMB int     `json:"max_rss_mb"` // the worker stops and asks to be restarted above this resident size
}

// ReplayFile is the on-disk form of one violation.
type ReplayFile struct {
	Property   string         `json:"property"`
	Invariant  string         `json:"invariant"`
	Signature  string         `json:"signature"`
	Message    string         `json:"message"`
	Seed       uint64         `json:"seed"`
	Case       int            `json:"case"`
	Tape       []int          `json:"tape"`
	Minimised  bool           `json:"minimised"`
	OrigLen    int            `json:"original_tape_len"`
	MinRuns    int            `json:"minimiser_runs"`
	Desc       string         `json:"desc"`
	Detail     map[string]any `json:"detail"`
	Schedule   []string       `json:"schedule"`
	TreeHash   string         `json:"tree_hash"`
	Race       bool           `json:"race_build"`
	Count      int            `json:"occurrences_in_worker"`
}

// WorkerResult is what a worker reports.
type WorkerResult struct {
	Property     string         `json:"property"`
	Worker       int            `json:"worker"`
	Cases        int            `json:"cases"`
	Runs         int            `json:"runs"`
	NonTrivial   int            `json:"nontrivial"`
	Distinct     int            `json:"distinct"`
	Violations   []ReplayFile   `json:"violations"`
	Stats        RunStats       `json:"stats"`
	FaultFired   map[string]int `json:"fault_fired"`
	Probes       map[string]int `json:"probes"`
	Inconclusive int            `json:"inconclusive"`
	InconSamples []string       `json:"inconclusive_samples"`
	Samples      []any          `json:"samples"`
	WallS        float64        `json:"wall_s"`
	Error        string         `json:"error"`
	Reproduced   bool           `json:"reproduced"`
	Extra        map[string]any `json:"extra"`
}

// PropDef is a property's simulation.
type PropDef struct {
	ID string
	// Case explores case idx: it may execute many runs and reports each.
	Case func(t *testing.T, c *CaseCtx, idx int)
	// Run executes exactly the run recorded on the tape.
	Run func(t *testing.T, tape *Tape) *Outcome
	// Extra, if set, adds property-specific facts to the worker result.
	Extra func(job *Job) map[string]any
}

// CaseCtx is handed to PropDef.Case.
type CaseCtx struct {
	Job   *Job
	Emit  func(o *Outcome)
	Stop  func() bool // budget exhausted
	Quick bool
}

// Props is the registry.
var Props = map[string]*PropDef{}

type collector struct {
	job     *Job
	def     *PropDef
	t       *testing.T
	res     *WorkerResult
	hashes  map[uint64]struct{}
	bySig   map[string]int
	caseIdx int
	deadline time.Time
}

func (c *collector) emit(o *Outcome) {
	c.res.Runs++
	c.res.Stats.Add(&o.Stats)
	for k, v := range o.FaultFired {
		// "probe:" keys are reach probes (which workload shapes were drawn, which
		// rare branches were hit), not injected faults
		if strings.HasPrefix(k, "probe:") {
			c.res.Probes[strings.TrimPrefix(k, "probe:")] += v
			continue
		}
		c.res.FaultFired[k] += v
	}
	if o.Inconclusive != "" {
		c.res.Inconclusive++
		if len(c.res.InconSamples) < 5 {
			c.res.InconSamples = append(c.res.InconSamples, o.Inconclusive+" :: "+o.Desc)
		}
		return
	}
	if o.NonTrivial {
		c.res.NonTrivial++
		c.hashes[o.TraceHash] = struct{}{}
	}
	if len(c.res.Samples) < 4 && o.NonTrivial && (c.res.Runs%7 == 3 || len(c.res.Samples) == 0) {
		c.res.Samples = append(c.res.Samples, SampleOf(o))
	}
	for _, sig := range o.Signatures() {
		if i, ok := c.bySig[sig]; ok {
			c.res.Violations[i].Count++
			continue
		}
		var v Violation
		for _, x := range o.Violations {
			if x.Signature == sig {
				v = x
				break
			}
		}
		rf := ReplayFile{Property: c.def.ID, Invariant: v.Invariant, Signature: sig, Message: v.Message, Seed: c.job.Seed,
			Case: c.caseIdx, Tape: o.Tape, OrigLen: len(o.Tape), Desc: o.Desc, Detail: o.Detail, Schedule: o.Schedule,
			TreeHash: c.job.TreeHash, Race: c.job.Race, Count: 1}
		if c.def.Run != nil && !c.job.Race {
			min, mo, runs := Minimise(c.t, c.def, o.Tape, sig, 300)
			if mo != nil {
				rf.Tape, rf.Minimised, rf.MinRuns = min, true, runs
				rf.Desc, rf.Detail, rf.Schedule = mo.Desc, mo.Detail, mo.Schedule
				for _, x := range mo.Violations {
					if x.Signature == sig {
						rf.Message = x.Message
					}
				}
			}
		}
		c.bySig[sig] = len(c.res.Violations)
		c.res.Violations = append(c.res.Violations, rf)
	}
}

// SampleOf renders a run for the evidence file.
func SampleOf(o *Outcome) map[string]any {
	s := map[string]any{"case": o.Desc, "ops": o.N, "decisions": o.Stats.Decisions, "tasks": o.Stats.Tasks,
		"tape_len": len(o.Tape), "trace_hash": fmt.Sprintf("%016x", o.TraceHash), "violations": len(o.Violations)}
	sch := o.Schedule
	if len(sch) > 12 {
		sch = append(append([]string{}, sch[:8]...), fmt.Sprintf("... %d more decisions ...", len(o.Schedule)-12), sch[len(sch)-3], sch[len(sch)-2], sch[len(sch)-1])
	}
	s["schedule"] = sch
	for k, v := range o.Detail {
		if k == "program" {
			continue
		}
		s[k] = v
	}
	return s
}

// Minimise shrinks a failing tape by delta debugging: truncate, zero blocks,
// delete blocks, lower values; a candidate is kept iff the re-run still shows a
// violation with the same signature.
func Minimise(t *testing.T, def *PropDef, tape []int, sig string, maxRuns int) ([]int, *Outcome, int) {
	runs := 0
	var best *Outcome
	cur := append([]int(nil), tape...)
	try := func(cand []int) bool {
		if runs >= maxRuns {
			return false
		}
		runs++
		o := def.Run(t, ReplayTape(cand))
		if o.Inconclusive == "" && o.HasSig(sig) {
			best = o
			return true
		}
		return false
	}
	// the recorded tape itself must reproduce
	if !try(cur) {
		return tape, nil, runs
	}
	// 1. truncate the tail (exhausted tape yields 0)
	for n := len(cur) / 2; n >= 1 && runs < maxRuns; n /= 2 {
		for len(cur) > n {
			cand := cur[:len(cur)-n]
			if !try(cand) {
				break
			}
			cur = append([]int(nil), cand...)
		}
	}
	// 2. zero blocks, 3. delete blocks
	for size := len(cur) / 2; size >= 1 && runs < maxRuns; size /= 2 {
		for i := 0; i+size <= len(cur) && runs < maxRuns; i += size {
			allZero := true
			for _, v := range cur[i : i+size] {
				if v != 0 {
					allZero = false
				}
			}
			if !allZero {
				cand := append([]int(nil), cur...)
				for j := i; j < i+size; j++ {
					cand[j] = 0
				}
				if try(cand) {
					cur = cand
				}
			}
			if i > 0 { // never delete the fixed slots at the head
				cand := append(append([]int(nil), cur[:i]...), cur[i+size:]...)
				if len(cand) > 0 && try(cand) {
					cur = cand
					i -= size
				}
			}
		}
	}
	// 4. lower single values
	for i := 0; i < len(cur) && runs < maxRuns; i++ {
		for cur[i] > 0 && runs < maxRuns {
			cand := append([]int(nil), cur...)
			cand[i] = cur[i] / 2
			if !try(cand) {
				cand[i] = cur[i] - 1
				if !try(cand) {
					break
				}
			}
			cur = cand
		}
	}
	// strip trailing zeros
	for len(cur) > 1 && cur[len(cur)-1] == 0 {
		cur = cur[:len(cur)-1]
	}
	if o := def.Run(t, ReplayTape(cur)); o.Inconclusive == "" && o.HasSig(sig) {
		best = o
		runs++
	} else {
		// trailing zeros mattered (should not happen): fall back
		return tape, nil, runs
	}
	return cur, best, runs
}

// rssMB returns the resident set size of the process in MiB (0 if unknown).
func rssMB() int {
	b, err := os.ReadFile("/proc/self/statm")
	if err != nil {
		return 0
	}
	var size, rss int
	fmt.Sscan(string(b), &size, &rss)
	return rss * os.Getpagesize() / (1 << 20)
}

// RunWorker executes a job; called from TestWorker.
func RunWorker(t *testing.T, job *Job) *WorkerResult {
	res := &WorkerResult{Property: job.Property, Worker: job.Worker, FaultFired: map[string]int{}, Probes: map[string]int{}, Extra: map[string]any{}}
	def := Props[job.Property]
	if def == nil {
		res.Error = "unknown property " + job.Property
		return res
	}
	t0 := time.Now()
	c := &collector{job: job, def: def, t: t, res: res, hashes: map[uint64]struct{}{}, bySig: map[string]int{}}
	c.deadline = t0.Add(time.Duration(job.BudgetS * float64(time.Second)))
	switch job.Mode {
	case "replay":
		b, err := os.ReadFile(job.Replay)
		if err != nil {
			res.Error = err.Error()
			return res
		}
		var rf ReplayFile
		if err := json.Unmarshal(b, &rf); err != nil {
			res.Error = err.Error()
			return res
		}
		tries := 1
		if job.Race {
			tries = 5
		}
		for i := 0; i < tries && !res.Reproduced; i++ {
			o := def.Run(t, ReplayTape(rf.Tape))
			res.Runs++
			if o.Inconclusive != "" {
				res.Error = "inconclusive: " + o.Inconclusive
				continue
			}
			for _, v := range o.Violations {
				if v.Signature == rf.Signature {
					res.Reproduced = true
					rf.Message = v.Message
					rf.Schedule = o.Schedule
					res.Violations = []ReplayFile{rf}
					break
				}
			}
			if !res.Reproduced && len(o.Violations) > 0 {
				res.Extra["other_signatures"] = o.Signatures()
			}
		}
	case "explore":
		ctx := &CaseCtx{Job: job, Emit: c.emit, Quick: job.Tier == "quick", Stop: func() bool { return time.Now().After(c.deadline) }}
		lastFlush := time.Now()
		first := job.Worker
		for first < job.Start {
			first += job.Workers
		}
		maxRSS := job.MaxRSSMB
		if maxRSS == 0 {
			maxRSS = 3000
		}
		for idx := first; idx < job.Cases; idx += job.Workers {
			if ctx.Stop() {
				break
			}
			// runs whose tasks stay blocked for ever leave goroutines (and their
			// interpreters) behind in dead bubbles: recycle the process
			if res.Cases%25 == 24 && rssMB() > maxRSS {
				res.Extra["resume_from"] = idx
				break
			}
			c.caseIdx = idx
			// a fatal error of the Go runtime (concurrent map writes, unlock of
			// unlocked mutex ...) provoked by the interpreter kills the process:
			// the driver finds the case in the progress file
			_ = os.WriteFile(job.Out+".progress", []byte(fmt.Sprint(idx)), 0o644)
			def.Case(t, ctx, idx)
			res.Cases++
			if time.Since(lastFlush) > 5*time.Second {
				lastFlush = time.Now()
				res.Distinct = len(c.hashes)
				res.WallS = time.Since(t0).Seconds()
				if b, err := json.Marshal(res); err == nil {
					_ = os.WriteFile(job.Out+".partial", b, 0o644)
				}
			}
		}
		_ = os.Remove(job.Out + ".progress")
	case "determinism":
		var log strings.Builder
		ctx := &CaseCtx{Job: job, Quick: true, Stop: func() bool { return false }}
		ctx.Emit = func(o *Outcome) {
			res.Runs++
			h := uint64(14695981039346656037)
			for _, v := range o.Tape {
				h = (h ^ uint64(v)) * 1099511628211
			}
			fmt.Fprintf(&log, "%d.%d trace=%016x tape=%d/%016x ops=%d dec=%d sigs=%v inc=%q\n", c.caseIdx, res.Runs, o.TraceHash, len(o.Tape), h, o.N, o.Stats.Decisions, o.Signatures(), o.Inconclusive)
		}
		for idx := 0; idx < job.Cases; idx++ {
			c.caseIdx = idx
			def.Case(t, ctx, idx)
		}
		res.Extra["log"] = log.String()
	default:
		res.Error = "unknown mode " + job.Mode
	}
	res.Distinct = len(c.hashes)
	res.WallS = time.Since(t0).Seconds()
	if def.Extra != nil {
		for k, v := range def.Extra(job) {
			res.Extra[k] = v
		}
	}
	if job.HashOut != "" {
		hs := make([]uint64, 0, len(c.hashes))
		for h := range c.hashes {
			hs = append(hs, h)
		}
		sort.Slice(hs, func(i, j int) bool { return hs[i] < hs[j] })
		buf := make([]byte, 8*len(hs))
		for i, h := range hs {
			binary.LittleEndian.PutUint64(buf[8*i:], h)
		}
		_ = os.WriteFile(job.HashOut, buf, 0o644)
	}
	return res
}
