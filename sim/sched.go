package sim

import (
	"fmt"
	"reflect"
	"sync"
	"sync/atomic"
	"testing/synctest"
	"time"

	"github.com/traefik/yaegi/interp"
)

// The scheduler. See DESIGN.md section 3.2. Everything in this file that touches
// scheduler state is //go:norace and runs between runtime.RaceDisable and
// runtime.RaceEnable, so that the race detector sees the happens-before relation
// of script + interpreter only, not the serialisation the scheduler imposes.

func getg() uintptr

const (
	maxTasks = 96
	gtabSize = 512
)

// hook kinds
const (
	kStart = iota // task start
	kStep         // W1: an interpreted operation begins
	kYield        // W2/W3: inside an operation
	kLock         // W5: about to acquire a mutex
	kLockWait     // W5: mutex was busy
	kHost         // harness yield point (host function entry etc.)
)

var kindName = [...]string{"start", "step", "yield", "lock", "lockwait", "host"}

const (
	tNew int32 = iota
	tParked
	tRunning
	tExited
)

// abortSentinel is panicked by hooks when the run is being torn down.
type abortSentinel struct{}

func (abortSentinel) Error() string { return "verif: run aborted" }

// Task is one goroutine that may execute interpreted code.
type Task struct {
	idx      int
	Name     string
	g        uintptr
	state    atomic.Int32
	wake     chan struct{}
	parkKind int
	parkSite int
	lockMu   any
	lockW    bool
	spawned  int
	quantum  int
	stall    int // excluded from candidates until this decision number

	Ops          int // operations started
	OpsPostFault int // operations started after the fault (cancel) fired
	ReleasedByDone bool // a select of this task completed with the cancellation channel (chan struct{} case)
	OpsAtRelease   int  // operations started when that happened
	parkedAtFault bool
	HostPostFault int // host side effects after the fault fired
	Panic        any // non-sentinel panic that ended the task
	Client       bool
	fn           func()
	Route        any // inherited by spawned tasks (the workload instance the task belongs to)
}

// Decision is one scheduling decision, kept for replay files and trace hashes.
type Decision struct {
	N       int
	Task    int
	Site    int
	Kind    int
	Quantum int
	NCand   int
}

// Run is the state of one simulated run.
type Run struct {
	Tape *Tape
	Cfg  RunCfg

	mu     sync.Mutex
	gtab   [gtabSize]struct {
		g uintptr
		t *Task
	}
	tasks  [maxTasks]*Task
	ntasks atomic.Int32

	grant    atomic.Pointer[Task]
	last     *Task
	kick     chan struct{}
	aborting atomic.Bool

	exitSync atomic.Int64
	hot      []uint64
	always   []uint64 // sites that yield whatever is left of the yield budget
	siteUsed []uint16 // preemptions taken per site (PerSiteBudget)
	hit      []uint64
	selState uint64
	yieldsLeft atomic.Int64
	yieldSkip  atomic.Int64

	decisions int
	totalOps  atomic.Int64
	hookCalls atomic.Int64

	// fault: cancellation at operation count
	CancelAtOp  int64 // 0 = none
	CancelAtHook int64 // 0 = none: cancel at hook-event count (finer than operations)
	wantCancel  atomic.Bool
	cancelFn    func()
	Cancelled   atomic.Bool
	Returned    atomic.Bool // the cancelled call has returned to its caller: post-fault accounting starts here
	ReturnDecision int
	TasksAtReturn  int // tasks created later belong to later evaluations
	ClientBlockedAfterCancel bool // the caller was blocked in the runtime at a quiescent point between cancel and return
	clientTask  *Task
	CancelDecision int
	CancelSite  int
	CancelKind  int
	onCancelled func() // scheduler-side callback right after cancelFn()
	onCancelQuiesced func() // scheduler-side callback at the first quiescence after the cancel
	cancelQuiesceDone bool
	CancelOnIdle bool          // fire the cancel when every task is blocked in the runtime
	CancelAtTime time.Duration // fire the cancel when the fake clock reaches this (all tasks blocked)

	Decisions []Decision
	traceHash uint64
	stepHash  uint64

	// outcome
	Deadlock     bool
	Finished     bool // the call under test returned normally before any fault
	DeadlockInfo string
	BudgetHit    bool
	Stats        RunStats
	start        time.Time
	probeSameStmt [2]int32 // last (task,site) parked in an intra-op site
}

// RunCfg are the per-run knobs, all drawn from the tape by the caller.
type RunCfg struct {
	MaxDecisions int
	MaxOps       int64
	QuantumMax   int // quantum drawn in [0,QuantumMax]; 0 = run until block
	HotSites     []int
	YieldBudget  int
	YieldSkip    int // hot-site hits to let pass before the yield budget starts being spent (preemption late in a run)
	PerSiteBudget int // if > 0: every hot site may preempt that many times, whatever the others used (rarely executed branches get their share); replaces YieldBudget
	AlwaysSites  []int // hot sites exempt from the yield budget (rare windows late in a run)
	StallMax     int // a task parked at a hot intra-op site may be stalled up to this many decisions
	StartDelay   bool
	Profile      bool   // record which intra-operation sites are executed
	SelSeed      uint64 // seeds the order in which ready select cases are tried
	IdleTimeout  time.Duration
}

// RunStats counts what actually happened (fault kinds fired, probes).
type RunStats struct {
	Decisions      int
	Ops            int64
	Hooks          int64
	PreemptOp      int // quantum expiry at an operation boundary
	PreemptOperand int // preemption at an operand fetch (W2)
	PreemptStmt    int // preemption at a statement inside an operation (W3)
	Switches       int // decisions that changed the running task
	Stalls         int
	StartDelays    int // a new task was not the first to run after its spawn
	LockWaits      int // cooperative mutex found busy
	CancelRunning  int // cancel fired while some task was runnable
	CancelBlocked  int // cancel fired while all tasks were blocked in the runtime
	IdleAdvances   int // scheduler idled and fake time advanced / runtime wake-up
	SameStmtPair   int // probe: two tasks resident in the same statement closure at once
	WokenByDone    int // probe: a task parked nowhere was woken by the runtime after cancel
	SimTime        time.Duration
	Tasks          int
}

var cur atomic.Pointer[Run]

var hooksOnce sync.Once

// InstallHooks wires the woven package to the simulator (once per process).
func InstallHooks() {
	hooksOnce.Do(func() {
		interp.VerifStep = hookStep
		interp.VerifYield = hookYield
		interp.VerifGo = hookGo
		interp.VerifLock = hookLock
		interp.VerifSelect = hookSelect
		interp.VerifSelected = hookSelected
		// one-time initialisations of the time package (sync.Once) must not
		// happen first inside the scheduler, whose synchronisation is hidden.
		time.NewTimer(time.Hour).Stop()
	})
}

//go:norace
func hookStep(site int) {
	r := cur.Load()
	if r == nil {
		return
	}
	raceDisable()
	abort := r.hook(kStep, site)
	raceEnable()
	if abort {
		panic(abortSentinel{})
	}
}

//go:norace
func hookYield(site int) {
	r := cur.Load()
	if r == nil {
		return
	}
	raceDisable()
	abort := r.hook(kYield, site)
	raceEnable()
	if abort {
		panic(abortSentinel{})
	}
}

// HostYield is a scheduling point inside harness host functions.
//
//go:norace
func HostYield() {
	r := cur.Load()
	if r == nil {
		return
	}
	raceDisable()
	abort := r.hook(kHost, -1)
	raceEnable()
	if abort {
		panic(abortSentinel{})
	}
}

//go:norace
func hookGo(site int, fn func()) {
	r := cur.Load()
	if r == nil {
		go fn()
		return
	}
	raceDisable()
	parent := r.lookup(getg())
	var t *Task
	if parent != nil {
		t = r.newTask(parent.Name+"."+itoa(parent.spawned), fn)
		parent.spawned++
		if t != nil {
			t.Route = parent.Route
		}
	}
	raceEnable()
	if t == nil {
		go fn()
		return
	}
	// the go statement is executed with the detector enabled: genuine
	// parent -> child happens-before edge.
	go r.taskMain(t)
}

//go:norace
func hookLock(mu any, write bool, site int) bool {
	r := cur.Load()
	if r == nil {
		return false
	}
	raceDisable()
	t := r.lookup(getg())
	if t == nil {
		raceEnable()
		return false
	}
	kind := kLock
	for {
		r.hookCalls.Add(1)
		if r.aborting.Load() {
			raceEnable()
			panic(abortSentinel{})
		}
		if r.hit != nil && site >= 0 {
			r.hit[site>>6] |= 1 << (uint(site) & 63)
		}
		hot := kind == kLock && r.isHot(site) && r.yieldsLeft.Load() > 0
		if hot {
			r.yieldsLeft.Add(-1)
			r.Stats.PreemptStmt++
		}
		if r.grant.Load() != t || kind == kLockWait || hot {
			t.lockMu, t.lockW = mu, write
			r.park(t, kind, site)
			t.lockMu = nil
			if r.aborting.Load() {
				raceEnable()
				panic(abortSentinel{})
			}
		}
		raceEnable()
		ok := tryLock(mu, write)
		if ok {
			return true
		}
		raceDisable()
		r.Stats.LockWaits++
		kind = kLockWait
	}
}

func tryLock(mu any, write bool) bool {
	switch m := mu.(type) {
	case *sync.Mutex:
		return m.TryLock()
	case **sync.Mutex:
		return (*m).TryLock()
	case *sync.RWMutex:
		if write {
			return m.TryLock()
		}
		return m.TryRLock()
	case **sync.RWMutex:
		if write {
			return (*m).TryLock()
		}
		return (*m).TryRLock()
	}
	panic("verif: unsupported lock type")
}

func unlock(mu any, write bool) {
	switch m := mu.(type) {
	case *sync.Mutex:
		m.Unlock()
	case **sync.Mutex:
		(*m).Unlock()
	case *sync.RWMutex:
		if write {
			m.Unlock()
		} else {
			m.RUnlock()
		}
	case **sync.RWMutex:
		if write {
			(*m).Unlock()
		} else {
			(*m).RUnlock()
		}
	}
}

// hookSelect makes the choice among several ready select cases the simulator's:
// cases are polled in an order rotated by the run's own PRNG; only if none is
// ready does the task block in the real reflect.Select.
//
//go:norace
func hookSelect(site int, cases []reflect.SelectCase) (int, reflect.Value, bool, bool) {
	r := cur.Load()
	if r == nil {
		return 0, reflect.Value{}, false, false
	}
	raceDisable()
	t := r.lookup(getg())
	n := len(cases)
	if t == nil || n == 0 {
		raceEnable()
		return 0, reflect.Value{}, false, false
	}
	start := int(splitmix(&r.selState) % uint64(n))
	raceEnable()
	def := -1
	for i := 0; i < n; i++ {
		j := (start + i) % n
		c := cases[j]
		if c.Dir == reflect.SelectDefault {
			def = j
			continue
		}
		if !c.Chan.IsValid() || c.Chan.IsNil() {
			continue
		}
		if chosen, v, ok := reflect.Select([]reflect.SelectCase{c, {Dir: reflect.SelectDefault}}); chosen == 0 {
			return j, v, ok, true
		}
	}
	if def >= 0 {
		return def, reflect.Value{}, false, true
	}
	return 0, reflect.Value{}, false, false
}

var doneChanType = reflect.TypeOf((chan struct{})(nil))

// hookSelected records that a task was released from a channel operation by the
// cancellation channel: the programs of the checks that use this probe have no
// channel of struct{} of their own.
//
//go:norace
func hookSelected(site int, cases []reflect.SelectCase, chosen int) {
	r := cur.Load()
	if r == nil || chosen < 0 || chosen >= len(cases) {
		return
	}
	c := cases[chosen]
	if c.Dir != reflect.SelectRecv || !c.Chan.IsValid() || c.Chan.Type() != doneChanType {
		return
	}
	raceDisable()
	if t := r.lookup(getg()); t != nil && !t.ReleasedByDone {
		t.ReleasedByDone = true
		t.OpsAtRelease = t.Ops
	}
	raceEnable()
}

// CoopLock acquires a script-visible mutex cooperatively (DESIGN 3.5).
//
//go:norace
func CoopLock(mu any, write bool) {
	if !hookLock(mu, write, -1) {
		switch m := mu.(type) {
		case *sync.Mutex:
			m.Lock()
		case *sync.RWMutex:
			if write {
				m.Lock()
			} else {
				m.RLock()
			}
		}
	}
}

//go:norace
func (r *Run) lookup(g uintptr) *Task {
	h := int((g >> 4) % gtabSize)
	for i := 0; i < gtabSize; i++ {
		e := &r.gtab[(h+i)%gtabSize]
		eg := atomic.LoadUintptr(&e.g)
		if eg == g {
			return e.t
		}
		if eg == 0 {
			return nil
		}
	}
	return nil
}

//go:norace
func (r *Run) register(g uintptr, t *Task) {
	r.mu.Lock()
	h := int((g >> 4) % gtabSize)
	for i := 0; i < gtabSize; i++ {
		e := &r.gtab[(h+i)%gtabSize]
		if e.g == 0 || e.g == 1 || e.g == g {
			e.t = t
			atomic.StoreUintptr(&e.g, g)
			break
		}
	}
	r.mu.Unlock()
}

//go:norace
func (r *Run) unregister(g uintptr) {
	r.mu.Lock()
	h := int((g >> 4) % gtabSize)
	for i := 0; i < gtabSize; i++ {
		e := &r.gtab[(h+i)%gtabSize]
		if e.g == g {
			atomic.StoreUintptr(&e.g, 1) // tombstone
			e.t = nil
			break
		}
		if e.g == 0 {
			break
		}
	}
	r.mu.Unlock()
}

//go:norace
func (r *Run) newTask(name string, fn func()) *Task {
	r.mu.Lock()
	n := int(r.ntasks.Load())
	if n >= maxTasks {
		r.mu.Unlock()
		r.aborting.Store(true)
		r.BudgetHit = true
		return nil
	}
	t := &Task{idx: n, Name: name, fn: fn, wake: make(chan struct{})}
	t.state.Store(tNew)
	r.tasks[n] = t
	r.ntasks.Store(int32(n + 1))
	r.mu.Unlock()
	return t
}

// Spawn creates a harness task (client, host caller). Must be called from inside
// the bubble, by the scheduler goroutine before Loop or by a task.
//
//go:norace
func (r *Run) Spawn(name string, fn func()) *Task { return r.SpawnRouted(name, nil, fn) }

// SpawnRouted is Spawn with the task's route (workload instance) set before the
// goroutine starts.
//
//go:norace
func (r *Run) SpawnRouted(name string, route any, fn func()) *Task {
	raceDisable()
	t := r.newTask(name, fn)
	raceEnable()
	if t == nil {
		return nil
	}
	t.Route = route
	t.Client = true
	go r.taskMain(t)
	return t
}

//go:norace
func (r *Run) taskMain(t *Task) {
	raceDisable()
	t.g = getg()
	r.register(t.g, t)
	defer r.taskExit(t)
	r.park(t, kStart, -1)
	if r.aborting.Load() {
		raceEnable()
		return
	}
	raceEnable()
	t.fn()
}

//go:norace
func (r *Run) taskExit(t *Task) {
	// RaceDisable state: fn returned normally with the detector enabled, or
	// panicked (enabled too, hooks re-enable before panicking).
	if p := recover(); p != nil {
		if _, ok := p.(abortSentinel); !ok {
			t.Panic = p
		}
	}
	// visible to the detector: everything this task did happens before whoever
	// reads the results after JoinEdge().
	r.exitSync.Add(1)
	raceDisable()
	r.unregister(t.g)
	if r.grant.Load() == t {
		r.grant.Store(nil)
	}
	t.state.Store(tExited)
	r.kickSched()
	// leave the detector disabled: the goroutine ends here.
}

//go:norace
func (r *Run) kickSched() {
	select {
	case r.kick <- struct{}{}:
	default:
	}
}

//go:norace
func (r *Run) isHot(site int) bool {
	if site < 0 || site>>6 >= len(r.hot) {
		return false
	}
	return r.hot[site>>6]&(1<<(uint(site)&63)) != 0
}

// hook is the common body of W1/W2/W3 hooks. Returns true if the run is aborting.
//
//go:norace
func (r *Run) hook(kind, site int) bool {
	t := r.lookup(getg())
	if t == nil {
		return false
	}
	if r.aborting.Load() {
		return true
	}
	hc := r.hookCalls.Add(1)
	if r.hit != nil && site >= 0 && kind == kYield {
		r.hit[site>>6] |= 1 << (uint(site) & 63)
	}
	granted := r.grant.Load() == t
	preempt := false
	if granted {
		if r.CancelAtHook > 0 && hc >= r.CancelAtHook && !r.Cancelled.Load() && !r.wantCancel.Load() {
			r.wantCancel.Store(true)
			preempt = true
		}
		switch kind {
		case kStep:
			if r.CancelAtOp > 0 && !r.Cancelled.Load() && r.totalOps.Load()+1 >= r.CancelAtOp && !r.wantCancel.Load() {
				r.wantCancel.Store(true)
				preempt = true
			}
			if t.quantum > 0 {
				t.quantum--
				if t.quantum == 0 {
					preempt = true
					r.Stats.PreemptOp++
				}
			}
			if r.totalOps.Load() >= r.Cfg.MaxOps {
				r.BudgetHit = true
				r.aborting.Store(true)
				return true
			}
		case kHost:
			preempt = true // explicit yield of a harness task (retry loops)
		case kYield:
			if !r.isHot(site) {
				// not a candidate
			} else if r.yieldSkip.Load() > 0 {
				r.yieldSkip.Add(-1)
				break
			}
			perSite := false
			if r.Cfg.PerSiteBudget > 0 && r.isHot(site) && site < len(r.siteUsed) && int(r.siteUsed[site]) < r.Cfg.PerSiteBudget {
				r.siteUsed[site]++
				perSite = true
			}
			if always := site >= 0 && site>>6 < len(r.always) && r.always[site>>6]&(1<<(uint(site)&63)) != 0; always || perSite || (r.Cfg.PerSiteBudget == 0 && r.isHot(site) && r.yieldsLeft.Load() > 0) {
				if !always && !perSite {
					r.yieldsLeft.Add(-1)
				}
				preempt = true
				if site >= 0 && interp.VerifSites[site].Kind == "operand" {
					r.Stats.PreemptOperand++
				} else {
					r.Stats.PreemptStmt++
				}
			}
		}
	}
	if !granted || preempt {
		r.park(t, kind, site)
		if r.aborting.Load() {
			return true
		}
	}
	if kind == kStep {
		if DebugSteps != nil {
			*DebugSteps = append(*DebugSteps, t.Name+" "+siteStringNoFmt(site)+" ret="+itoa(btoi(r.Returned.Load()))+" dec="+itoa(r.decisions))
		}
		t.Ops++
		r.totalOps.Add(1)
		if r.Returned.Load() {
			t.OpsPostFault++
		}
		r.stepHash = (r.stepHash ^ uint64(t.idx+1)<<20 ^ uint64(site+1)) * 0x100000001b3
	}
	return false
}

// park blocks the calling task until the scheduler grants it.
//
//go:norace
func (r *Run) park(t *Task, kind, site int) {
	t.parkKind, t.parkSite = kind, site
	if r.grant.Load() == t {
		r.grant.Store(nil)
	}
	t.state.Store(tParked)
	r.kickSched()
	<-t.wake
	t.state.Store(tRunning)
}

// NewRun prepares a run; must be called inside the bubble.
//
//go:norace
func NewRun(tape *Tape, cfg RunCfg) *Run {
	if cfg.MaxDecisions == 0 {
		cfg.MaxDecisions = 4000
	}
	if cfg.MaxOps == 0 {
		cfg.MaxOps = 200000
	}
	if cfg.IdleTimeout == 0 {
		cfg.IdleTimeout = 24 * time.Hour
	}
	r := &Run{Tape: tape, Cfg: cfg, kick: make(chan struct{}, 1), start: time.Now()}
	r.hot = make([]uint64, (len(interp.VerifSites)+63)/64)
	for _, s := range cfg.HotSites {
		if s >= 0 && s < len(interp.VerifSites) {
			r.hot[s>>6] |= 1 << (uint(s) & 63)
		}
	}
	r.always = make([]uint64, (len(interp.VerifSites)+63)/64)
	for _, s := range cfg.AlwaysSites {
		if s >= 0 && s < len(interp.VerifSites) {
			r.always[s>>6] |= 1 << (uint(s) & 63)
		}
	}
	r.yieldsLeft.Store(int64(cfg.YieldBudget))
	r.yieldSkip.Store(int64(cfg.YieldSkip))
	if cfg.PerSiteBudget > 0 {
		r.siteUsed = make([]uint16, len(interp.VerifSites))
	}
	if cfg.Profile {
		r.hit = make([]uint64, (len(interp.VerifSites)+63)/64)
	}
	r.selState = cfg.SelSeed
	r.Decisions = make([]Decision, 0, 256)
	r.traceHash = 0xcbf29ce484222325
	r.stepHash = 0xcbf29ce484222325
	return r
}

// SetCancel registers the cancellation function the scheduler fires.
func (r *Run) SetCancel(fn func(), after func(), quiesced func()) {
	r.cancelFn, r.onCancelled, r.onCancelQuiesced = fn, after, quiesced
}

//go:norace
func (r *Run) eligible(t *Task) bool {
	if t.state.Load() != tParked {
		return false
	}
	if t.parkKind == kLockWait && t.lockMu != nil {
		return !mutexBusy(t.lockMu, t.lockW)
	}
	return true
}

//go:norace
func nameLess(a, b string) bool { return a < b }

// candidates returns eligible tasks: the last granted first, then by name.
//
//go:norace
func (r *Run) candidates(buf []*Task, honourStall bool) []*Task {
	buf = buf[:0]
	n := int(r.ntasks.Load())
	for i := 0; i < n; i++ {
		t := r.tasks[i]
		if !r.eligible(t) {
			continue
		}
		if honourStall && t.stall > r.decisions {
			continue
		}
		buf = append(buf, t)
	}
	// insertion sort: last first, then by name
	for i := 1; i < len(buf); i++ {
		for j := i; j > 0; j-- {
			a, b := buf[j-1], buf[j]
			swap := false
			switch {
			case b == r.last:
				swap = true
			case a == r.last:
				swap = false
			default:
				swap = nameLess(b.Name, a.Name)
			}
			if !swap {
				break
			}
			buf[j-1], buf[j] = b, a
		}
	}
	return buf
}

//go:norace
func (r *Run) alive() int {
	n := int(r.ntasks.Load())
	c := 0
	for i := 0; i < n; i++ {
		if r.tasks[i].state.Load() != tExited {
			c++
		}
	}
	return c
}

// Tasks returns the tasks created so far.
//
//go:norace
func (r *Run) Tasks() []*Task {
	n := int(r.ntasks.Load())
	out := make([]*Task, n)
	copy(out, r.tasks[:n])
	return out
}

// JoinEdge gives the caller a happens-before edge from every exited task (the
// scheduler's own synchronisation is hidden from the detector).
func (r *Run) JoinEdge() int64 { return r.exitSync.Load() }

// CurrentTask returns the calling goroutine's task, or nil.
//
//go:norace
func (r *Run) CurrentTask() *Task {
	raceDisable()
	t := r.lookup(getg())
	raceEnable()
	return t
}

// Decision returns the number of scheduling decisions taken so far.
func (r *Run) Decision() int { return r.decisions }

// Exited reports whether the task has ended.
func (t *Task) Exited() bool { return t.state.Load() == tExited }

// Parked reports whether the task is parked in a hook.
func (t *Task) Parked() bool { return t.state.Load() == tParked }

// ParkSite returns where the task is parked.
func (t *Task) ParkSite() (int, int) { return t.parkKind, t.parkSite }

//go:norace
func (r *Run) fireCancel(nc int) {
	r.wantCancel.Store(false)
	if r.Cancelled.Load() || r.cancelFn == nil {
		return
	}
	r.Cancelled.Store(true)
	r.CancelDecision = r.decisions
	if nc > 0 {
		r.Stats.CancelRunning++
	} else {
		r.Stats.CancelBlocked++
	}
	n := int(r.ntasks.Load())
	for i := 0; i < n; i++ {
		t := r.tasks[i]
		st := t.state.Load()
		t.parkedAtFault = st == tParked
		if !t.Client && (st == tRunning || st == tNew) {
			// blocked in the runtime (channel operation, select, sleep, host call):
			// the cancellation has to wake it
			r.Stats.WokenByDone++
		}
	}
	r.cancelFn()
	if r.onCancelled != nil {
		r.onCancelled()
	}
}

// MarkReturned is called by the client task right after the cancelled call
// returned: from here on, operations and host side effects count as post-fault.
//
//go:norace
func (r *Run) MarkReturned() {
	if r.Cancelled.Load() && !r.Returned.Load() {
		r.ReturnDecision = r.decisions
		r.TasksAtReturn = int(r.ntasks.Load())
		r.Returned.Store(true)
	}
}

// WatchClient tells the scheduler which task is the caller of the cancellable
// entry point (for the promptness invariant).
func (r *Run) WatchClient(t *Task) { r.clientTask = t }

// Finish is called by the client when the call under test returned without
// having been cancelled: the program is over (a compiled program would exit
// here), whatever goroutines it leaked are torn down.
//
//go:norace
func (r *Run) Finish() {
	if !r.Cancelled.Load() {
		r.cancelFn = nil
		r.CancelAtOp, r.CancelAtHook, r.CancelAtTime, r.CancelOnIdle = 0, 0, 0, false
		r.wantCancel.Store(false)
		r.Finished = true
		r.aborting.Store(true)
	}
}

// Rearm arms a new cancellation fault k operations from now (histories with
// several cancelled evaluations).
//
//go:norace
func (r *Run) Rearm(cancel func(), k int64) {
	r.Cancelled.Store(false)
	r.Returned.Store(false)
	r.wantCancel.Store(false)
	r.cancelQuiesceDone = false
	r.cancelFn = cancel
	r.CancelAtOp = r.totalOps.Load() + k
	r.CancelOnIdle = true
}

// Disarm removes a pending cancellation fault.
//
//go:norace
func (r *Run) Disarm() {
	r.cancelFn = nil
	r.CancelAtOp, r.CancelAtHook, r.CancelAtTime, r.CancelOnIdle = 0, 0, 0, false
	r.wantCancel.Store(false)
}

// Finish2 ends the run unconditionally (the history is over).
//
//go:norace
func (r *Run) Finish2() {
	r.Disarm()
	r.Finished = true
	r.aborting.Store(true)
}

// CancelNow lets a workload request cancellation at the next quiescent point.
func (r *Run) CancelNow() { r.wantCancel.Store(true) }

// Loop runs the scheduler until every task has exited, a budget is exhausted or
// a deadlock is detected. Must run on the bubble's main goroutine.
//
//go:norace
func (r *Run) Loop() {
	raceDisable()
	defer raceEnable()
	var buf [maxTasks]*Task
	idleTimer := time.NewTimer(r.Cfg.IdleTimeout)
	defer idleTimer.Stop()
loop:
	for {
		synctest.Wait()
		if r.aborting.Load() {
			break
		}
		if g := r.grant.Load(); g != nil {
			// the granted task blocked in the runtime without parking
			r.grant.Store(nil)
		}
		cands := r.candidates(buf[:0], true)
		if len(cands) == 0 {
			cands = r.candidates(buf[:0], false)
		}
		if r.Cancelled.Load() && !r.Returned.Load() && r.clientTask != nil {
			if st := r.clientTask.state.Load(); st == tRunning || st == tNew {
				r.ClientBlockedAfterCancel = true
			}
		}
		if r.Cancelled.Load() && !r.cancelQuiesceDone {
			r.cancelQuiesceDone = true
			if r.onCancelQuiesced != nil {
				r.onCancelQuiesced()
			}
		}
		if r.wantCancel.Load() {
			r.fireCancel(len(cands))
			continue
		}
		if len(cands) == 0 {
			if r.alive() == 0 {
				break
			}
			// everybody is blocked in the runtime: let fake time advance.
			select {
			case <-r.kick:
			default:
			}
			if !idleTimer.Stop() {
				select {
				case <-idleTimer.C:
				default:
				}
			}
			idle := r.Cfg.IdleTimeout
			canFault := !r.Cancelled.Load() && r.cancelFn != nil
			if canFault && r.CancelOnIdle {
				idle = time.Second
			}
			if canFault && r.CancelAtTime > 0 {
				if d := r.CancelAtTime - time.Since(r.start); d < idle {
					idle = d
					if idle < 0 {
						idle = 0
					}
				}
			}
			idleTimer.Reset(idle)
			r.Stats.IdleAdvances++
			select {
			case <-r.kick:
				continue
			case <-idleTimer.C:
				if canFault && (r.CancelOnIdle || r.CancelAtTime > 0) {
					r.fireCancel(0)
					continue
				}
				r.Deadlock = true
				r.DeadlockInfo = r.describeBlocked()
				r.aborting.Store(true)
				break loop
			}
		}
		if r.decisions >= r.Cfg.MaxDecisions {
			r.BudgetHit = true
			r.aborting.Store(true)
			break
		}
		// stall fault: the task that just parked at a hot intra-op site may be
		// kept out of the next decisions.
		if r.Cfg.StallMax > 0 && r.last != nil && len(cands) > 1 && cands[0] == r.last &&
			r.last.parkKind == kYield && r.last.stall <= r.decisions {
			if s := r.Tape.Choose(r.Cfg.StallMax + 1); s > 0 {
				r.last.stall = r.decisions + 1 + s*3
				r.Stats.Stalls++
				cands = r.candidates(buf[:0], true)
			}
		}
		i := r.Tape.Choose(len(cands))
		q := 0
		if r.Cfg.QuantumMax > 0 {
			q = r.Tape.Choose(r.Cfg.QuantumMax + 1)
		}
		t := cands[i]
		r.probe(t, cands)
		if t != r.last {
			r.Stats.Switches++
		}
		if r.Cfg.StartDelay && t.parkKind != kStart {
			for _, c := range cands {
				if c.parkKind == kStart {
					r.Stats.StartDelays++
					break
				}
			}
		}
		r.decisions++
		if len(r.Decisions) < cap(r.Decisions) || len(r.Decisions) < 4096 {
			r.Decisions = append(r.Decisions, Decision{r.decisions, t.idx, t.parkSite, t.parkKind, q, len(cands)})
		}
		r.traceHash = (r.traceHash ^ uint64(t.idx+1)<<40 ^ uint64(t.parkSite+2)<<8 ^ uint64(t.parkKind)) * 0x100000001b3
		t.quantum = q
		if q == 0 {
			// "run until it blocks", bounded so that a spinning task cannot starve
			// the others (the Go runtime is preemptive).
			t.quantum = 48
		}
		r.last = t
		r.grant.Store(t)
		t.wake <- struct{}{}
	}
	r.Stats.Decisions = r.decisions
	r.Stats.Ops = r.totalOps.Load()
	r.Stats.Hooks = r.hookCalls.Load()
	r.Stats.SimTime = time.Since(r.start)
	r.Stats.Tasks = int(r.ntasks.Load())
}

// probe: are two tasks resident inside the same statement closure (same enclosing
// function literal) at once?
//
//go:norace
func (r *Run) probe(next *Task, cands []*Task) {
	if next.parkSite < 0 || next.parkKind != kYield {
		return
	}
	n := int(r.ntasks.Load())
	a := &interp.VerifSites[next.parkSite]
	for i := 0; i < n; i++ {
		o := r.tasks[i]
		if o == next || o.state.Load() != tParked || o.parkKind != kYield || o.parkSite < 0 {
			continue
		}
		b := &interp.VerifSites[o.parkSite]
		if a.Op >= 0 && a.Op == b.Op {
			r.Stats.SameStmtPair++
			return
		}
	}
}

//go:norace
func (r *Run) describeBlocked() string {
	s := ""
	n := int(r.ntasks.Load())
	for i := 0; i < n; i++ {
		t := r.tasks[i]
		if st := t.state.Load(); st != tExited {
			s += t.Name + "(" + stateName(st)
			if st == tParked {
				s += " at " + kindName[t.parkKind] + " " + siteStringNoFmt(t.parkSite)
			}
			s += ") "
		}
	}
	return s
}

// itoa without fmt: fmt's sync.Pool must not be used while the detector ignores
// synchronisation (it would hand one buffer to two goroutines "unsynchronised").
//
//go:norace
func itoa(n int) string {
	if n == 0 {
		return "0"
	}
	var b [20]byte
	i := len(b)
	neg := n < 0
	if neg {
		n = -n
	}
	for n > 0 {
		i--
		b[i] = byte('0' + n%10)
		n /= 10
	}
	if neg {
		i--
		b[i] = '-'
	}
	return string(b[i:])
}

func stateName(s int32) string {
	switch s {
	case tNew:
		return "new"
	case tParked:
		return "parked"
	case tRunning:
		return "blocked-in-runtime"
	case tExited:
		return "exited"
	}
	return "?"
}

// Teardown aborts whatever is left: parked tasks are woken and unwind with the
// abort sentinel. Tasks blocked for ever in the runtime stay behind in the dead
// bubble. Returns the names of tasks that had not exited before teardown.
//
//go:norace
func (r *Run) Teardown() (left []string) {
	raceDisable()
	defer raceEnable()
	r.aborting.Store(true)
	n := int(r.ntasks.Load())
	for i := 0; i < n; i++ {
		if r.tasks[i].state.Load() != tExited {
			left = append(left, r.tasks[i].Name)
		}
	}
	for round := 0; round < 50; round++ {
		synctest.Wait()
		n = int(r.ntasks.Load())
		woke := false
		for i := 0; i < n; i++ {
			t := r.tasks[i]
			if t.state.Load() == tParked {
				r.grant.Store(t)
				t.wake <- struct{}{}
				synctest.Wait()
				woke = true
			}
		}
		if !woke {
			break
		}
	}
	return left
}

// ProfileSites returns the intra-operation sites executed by a profiling run.
func (r *Run) ProfileSites() []int {
	var out []int
	for i := range interp.VerifSites {
		if r.hit != nil && r.hit[i>>6]&(1<<(uint(i)&63)) != 0 {
			s := &interp.VerifSites[i]
			if s.Kind == "lock" || s.Op >= 0 || s.Kind == "operand" {
				out = append(out, i)
			}
		}
	}
	return out
}

// DebugSteps, when set, receives one line per operation start (debugging only).
var DebugSteps *[]string

func btoi(b bool) int {
	if b {
		return 1
	}
	return 0
}

// siteStringNoFmt is SiteString without fmt (usable by the scheduler).
//
//go:norace
func siteStringNoFmt(site int) string {
	if site < 0 || site >= len(interp.VerifSites) {
		return "-"
	}
	v := &interp.VerifSites[site]
	return v.File + ":" + itoa(v.Line) + " " + v.Func
}

// SiteString renders a site for reports.
func SiteString(site int) string {
	if site < 0 || site >= len(interp.VerifSites) {
		return "-"
	}
	s := interp.VerifSites[site]
	return fmt.Sprintf("%s:%d %s[%s]", s.File, s.Line, s.Func, s.Kind)
}

// TraceHash identifies the interleaving: the sequence of (task, site) decisions.
func (r *Run) TraceHash() uint64 { return r.traceHash ^ r.stepHash*31 }
