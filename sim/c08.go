package sim

import (
	"bytes"
	"os"
	"context"
	"fmt"
	"sort"
	"strings"
	"sync"
	"sync/atomic"
	"testing"
	"testing/synctest"
	"time"

	"github.com/anishathalye/porcupine"
	"github.com/traefik/yaegi/interp"

	"verif/sim/host"
	"verif/sim/wl/bincalls"
	"verif/sim/wl/closures"
	"verif/sim/wl/condq"
	"verif/sim/wl/fanout"
	"verif/sim/wl/funcs"
	"verif/sim/wl/hostcall"
	"verif/sim/wl/ifacewrap"
	"verif/sim/wl/methods"
	"verif/sim/wl/mutexctr"
	"verif/sim/wl/oncectr"
	"verif/sim/wl/values"
	"verif/sim/wl/perworker"
	"verif/sim/wl/pipeline"
	"verif/sim/wl/prodcons"
	"verif/sim/wl/rwmap"
	"verif/sim/wl/selmix"
	"verif/sim/wl/shapes"
	"verif/sim/wl/ticker"
	"verif/sim/wl/tree"
)

// C08: concurrent execution is correct and free of interpreter-induced races
// (DESIGN 4, C08).

// Template is one schedule-independent concurrent program: one source text,
// compiled natively into the harness and given to the interpreter.
type Template struct {
	Name     string
	Src      string
	Native   func()
	ParamMax []int // Param(i) is drawn in [0,ParamMax[i]]
}

var templates = []Template{
	{"perworker", perworker.Src, perworker.Run, []int{2, 2}},
	{"pipeline", pipeline.Src, pipeline.Run, []int{2, 4, 2}},
	{"fanout", fanout.Src, fanout.Run, []int{3, 5, 2}},
	{"mutexctr", mutexctr.Src, mutexctr.Run, []int{2, 3}},
	{"prodcons", prodcons.Src, prodcons.Run, []int{2, 3, 2, 2}},
	{"selmix", selmix.Src, selmix.Run, []int{4}},
	{"ticker", ticker.Src, ticker.Run, []int{3}},
	{"closures", closures.Src, closures.Run, []int{3}},
	{"methods", methods.Src, methods.Run, []int{2, 3}},
	{"tree", tree.Src, tree.Run, []int{1, 2}},
	{"rwmap", rwmap.Src, rwmap.Run, []int{2, 3}},
	{"bincalls", bincalls.Src, bincalls.Run, []int{2, 2}},
	{"ifacewrap", ifacewrap.Src, ifacewrap.Run, []int{2, 2}},
	{"condq", condq.Src, condq.Run, []int{2, 2, 2}},
	{"funcs", funcs.Src, funcs.Run, []int{2, 2}},
	{"shapes", shapes.Src, shapes.Run, []int{2, 3}},
	{"oncectr", oncectr.Src, oncectr.Run, []int{2, 3}},
	{"values", values.Src, values.Run, []int{2, 3}},
}

var (
	nativeMu    sync.Mutex
	nativeCache = map[string]map[int][]string{}
)

// nativeOutput runs the natively compiled template (free, in its own bubble for
// the fake clock) and returns the emitted values per tag.
func nativeOutput(t *testing.T, tpl *Template, params []int) map[int][]string {
	key := fmt.Sprint(tpl.Name, params)
	nativeMu.Lock()
	if v, ok := nativeCache[key]; ok {
		nativeMu.Unlock()
		return v
	}
	nativeMu.Unlock()
	sink := host.NewSink(4096, params)
	func() {
		defer func() {
			if p := recover(); p != nil {
				sink = nil
			}
		}()
		synctest.Test(t, func(t *testing.T) {
			host.Cur.Store(sink)
			tpl.Native()
			host.Cur.Store(nil)
		})
	}()
	if sink == nil {
		return nil
	}
	out := byTag(sink.Events())
	nativeMu.Lock()
	nativeCache[key] = out
	nativeMu.Unlock()
	return out
}

func byTag(evs []host.Event) map[int][]string {
	out := map[int][]string{}
	for _, e := range evs {
		switch e.Kind {
		case host.KEmit:
			out[e.Tag] = append(out[e.Tag], fmt.Sprint(e.Val))
		case host.KStr:
			out[e.Tag] = append(out[e.Tag], e.Str)
		}
	}
	return out
}

func sameOutput(a, b map[int][]string) (bool, string) {
	keys := map[int]bool{}
	for k := range a {
		keys[k] = true
	}
	for k := range b {
		keys[k] = true
	}
	var ks []int
	for k := range keys {
		ks = append(ks, k)
	}
	sort.Ints(ks)
	for _, k := range ks {
		if fmt.Sprint(a[k]) != fmt.Sprint(b[k]) {
			return false, fmt.Sprintf("tag %d: interpreted %v, compiled %v", k, a[k], b[k])
		}
	}
	return true, ""
}

// hot-site profiles: which intra-operation sites a (variant, template, params)
// instance executes under the default schedule. A pure function of its key, so
// it is cached per process without harming determinism.
var (
	profMu    sync.Mutex
	profCache = map[string][]int{}
)

type c08Instance struct {
	tpl    *Template
	params []int
	sink   *host.Sink
	err    error
	done   bool
	// multi-interpreter variant: what the interpreter's own standard streams
	// received (every interpreter has its own Stdout, Stderr and Env)
	stdout, stderr bytes.Buffer
	ioErr          error
}

func drawInstance(tape *Tape) *c08Instance {
	tpl := &templates[tape.Choose(len(templates))]
	in := &c08Instance{tpl: tpl}
	for _, m := range tpl.ParamMax {
		in.params = append(in.params, tape.Choose(m+1))
	}
	return in
}

const (
	c08Eval      = iota // EvalWithContext("pkg.Run()")
	c08Exported         // host task calls the exported function value
	c08HostCalls        // N host tasks call the same exported functions
	c08MultiInt         // N interpreters in parallel
	nC08Variants
)

var c08VariantName = [...]string{"eval-call", "exported-call", "host-callers", "multi-interpreter"}

// RunC08 executes one case.
func RunC08(t *testing.T, tape *Tape) *Outcome {
	o := &Outcome{Detail: map[string]any{}, FaultFired: map[string]int{}}
	variant := [...]int{c08Eval, c08Eval, c08Exported, c08HostCalls, c08MultiInt}[tape.Choose(5)]
	o.Detail["variant"] = c08VariantName[variant]
	switch variant {
	case c08HostCalls:
		return runC08HostCalls(t, tape, o)
	}
	ninst := 1
	if variant == c08MultiInt {
		ninst = 2 + tape.Choose(2)
	}
	var insts []*c08Instance
	var descs []string
	for i := 0; i < ninst; i++ {
		in := drawInstance(tape)
		insts = append(insts, in)
		descs = append(descs, fmt.Sprintf("%s%v", in.tpl.Name, in.params))
		o.FaultFired["template:"+in.tpl.Name]++
	}
	o.Desc = fmt.Sprintf("%s %s", c08VariantName[variant], strings.Join(descs, " | "))
	o.Detail["instances"] = descs

	body := func(r *Run) {
		master := host.NewSink(8, nil)
		master.Route = func() *host.Sink {
			if tk := r.CurrentTask(); tk != nil {
				if s, ok := tk.Route.(*host.Sink); ok {
					return s
				}
			}
			return nil
		}
		host.Cur.Store(master)
		for i, in := range insts {
			in := in
			in.err, in.done = nil, false
			in.sink = r.NewSink(4096, in.params)
			r.SpawnRouted(fmt.Sprintf("h%d", i), in.sink, func() {
				it := NewInterpFS(nil)
				tag := fmt.Sprintf("inst%d", i)
				if variant == c08MultiInt {
					// interpreters running side by side keep their own standard
					// streams and environment, whenever each was created and loaded
					in.stdout.Reset()
					in.stderr.Reset()
					it = NewInterpOpt(interp.Options{Stdout: &in.stdout, Stderr: &in.stderr, Env: []string{"VERIF_INST=" + tag}})
					if _, in.ioErr = it.Eval("import (\n\t\"fmt\"\n\t\"os\"\n)"); in.ioErr == nil {
						_, in.ioErr = it.Eval("fmt.Println(\"pre\", os.Getenv(\"VERIF_INST\"))")
					}
				}
				pkg := in.tpl.Name
				switch variant {
				case c08Exported:
					if _, in.err = it.Eval(in.tpl.Src); in.err != nil {
						break
					}
					v, err := it.Eval(pkg + ".Run")
					if err != nil {
						in.err = err
						break
					}
					fn, ok := v.Interface().(func())
					if !ok {
						in.err = fmt.Errorf("exported value has type %v, want func()", v.Type())
						break
					}
					fn()
				default:
					if _, in.err = it.EvalWithContext(context.Background(), in.tpl.Src); in.err != nil {
						break
					}
					_, in.err = it.EvalWithContext(context.Background(), pkg+".Run()")
				}
				if variant == c08MultiInt && in.ioErr == nil {
					_, in.ioErr = it.Eval("fmt.Printf(\"post %s\\n\", os.Getenv(\"VERIF_INST\"))")
				}
				in.done = true
			})
		}
	}
	key := fmt.Sprint(variant, descs)
	cfg := c08Cfg(t, tape, key, body)
	res := Simulate(t, tape, cfg, body, nil)
	r := res.Run
	fillOutcome(o, &res)
	if res.HarnessErr != "" {
		o.Inconclusive = "harness panic: " + res.HarnessErr
		return o
	}
	o.NonTrivial = r.Stats.Switches > 1 && r.Stats.Tasks > 2
	c08Common(o, r, &res)
	for i, in := range insts {
		want := nativeOutput(t, in.tpl, in.params)
		if want == nil {
			o.Inconclusive = "native reference run failed for " + descs[i]
			return o
		}
		switch {
		case in.err != nil:
			if _, isAbort := in.err.(interp.Panic); isAbort && (r.Deadlock || r.BudgetHit) {
				continue // torn down after a deadlock already reported
			}
			o.addV("C08", "no-error", "eval-error tpl="+in.tpl.Name, "%s: evaluation failed: %v", descs[i], in.err)
		case !in.done:
			if !r.Deadlock && !r.BudgetHit {
				o.addV("C08", "completion", "not-completed tpl="+in.tpl.Name, "%s did not complete (left: %v)", descs[i], res.Left)
			}
		default:
			got := byTag(in.sink.Events())
			if ok, diff := sameOutput(got, want); !ok {
				o.addV("C08", "output", "output-mismatch tpl="+in.tpl.Name, "%s under %s: %s", descs[i], c08VariantName[variant], diff)
			}
			if variant == c08MultiInt {
				tag := fmt.Sprintf("inst%d", i)
				// (os.Stdout/os.Stderr themselves only follow Options when those are
				// files: the fmt.Print family is what is redirected for any writer)
				wantOut, wantErr := "pre "+tag+"\npost "+tag+"\n", ""
				if in.ioErr != nil {
					o.addV("C08", "no-error", "eval-error multi-interpreter-streams", "%s: %v", descs[i], in.ioErr)
				} else if in.stdout.String() != wantOut || in.stderr.String() != wantErr {
					o.addV("C08", "output", "interpreter-streams-mixed", "interpreter %d of %d (%s): its own Stdout received %q (want %q), its own Stderr %q (want %q)", i, len(insts), descs[i], in.stdout.String(), wantOut, in.stderr.String(), wantErr)
				}
				o.FaultFired["probe:interpreters-with-own-streams-side-by-side"]++
			}
		}
	}
	return o
}

// c08Common: deadlock, task panic, budget.
func c08Common(o *Outcome, r *Run, res *SimResult) {
	// blame the instances whose tasks are stuck or panicked (task hN... belongs to instance N)
	if ins, ok := o.Detail["instances"].([]string); ok && len(ins) > 1 {
		bl := map[string]bool{}
		for _, tk := range r.Tasks() {
			if (!tk.Exited() && (r.Deadlock || r.BudgetHit)) || tk.Panic != nil {
				var n int
				if _, err := fmt.Sscanf(tk.Name, "h%d", &n); err == nil && n < len(ins) {
					s := ins[n]
					if i := strings.IndexByte(s, '['); i > 0 {
						s = s[:i]
					}
					bl[s] = true
				}
			}
		}
		var names []string
		for k := range bl {
			names = append(names, k)
		}
		sort.Strings(names)
		if len(names) > 0 {
			o.Detail["blame"] = strings.Join(names, "+")
		}
	}
	if r.Deadlock {
		where := ""
		for _, tk := range r.Tasks() {
			if !tk.Exited() {
				where = tk.Name
			}
		}
		_ = where
		o.addV("C08", "no-deadlock", "deadlock "+deadlockShape(o), "deadlock: every live task is blocked and no timer is pending: %s", r.DeadlockInfo)
	}
	if r.BudgetHit {
		o.addV("C08", "termination", "budget-exhausted "+deadlockShape(o), "the run did not finish within its step budget (%d decisions, %d operations)", r.Stats.Decisions, r.Stats.Ops)
	}
	for _, tk := range r.Tasks() {
		if tk.Panic != nil {
			msg := fmt.Sprint(tk.Panic)
			if len(msg) > 200 {
				msg = msg[:200]
			}
			o.addV("C08", "no-panic", "task-panic "+deadlockShape(o), "task %s panicked: %s", tk.Name, msg)
		}
	}
}

func deadlockShape(o *Outcome) string {
	if s, ok := o.Detail["blame"].(string); ok {
		return "tpl=" + s
	}
	if ins, ok := o.Detail["instances"].([]string); ok && len(ins) > 0 {
		var names []string
		for _, s := range ins {
			if i := strings.IndexByte(s, '['); i > 0 {
				s = s[:i]
			}
			names = append(names, s)
		}
		sort.Strings(names)
		names = uniq(names)
		return "tpl=" + strings.Join(names, "+")
	}
	return "tpl=" + fmt.Sprint(o.Detail["variant"])
}

func uniq(s []string) []string {
	var out []string
	for i, x := range s {
		if i == 0 || x != s[i-1] {
			out = append(out, x)
		}
	}
	return out
}

// c08Cfg draws the scheduling knobs; hot sites are drawn from the profile of the
// instance (sites executed under the default schedule).
func c08Cfg(t *testing.T, tape *Tape, key string, body func(r *Run)) RunCfg {
	profMu.Lock()
	prof, ok := profCache[key]
	profMu.Unlock()
	if !ok {
		pr := Simulate(t, ReplayTape(nil), RunCfg{Profile: true, MaxOps: 60000, MaxDecisions: 20000}, body, nil)
		if pr.Run != nil {
			prof = pr.Run.ProfileSites()
		}
		profMu.Lock()
		profCache[key] = prof
		profMu.Unlock()
	}
	cfg := RunCfg{MaxOps: 60000, MaxDecisions: 8000}
	strategy := tape.Choose(9)
	if strategy == 6 {
		strategy = 5
	}
	switch strategy {
	case 8: // one single site of the profile, with a budget of its own (the site sweep enumerates them)
		cfg.QuantumMax = [...]int{0, 2, 6}[tape.Choose(3)]
		if len(prof) > 0 {
			cfg.HotSites = append(cfg.HotSites, prof[tape.Choose(len(prof))])
		}
		cfg.PerSiteBudget = 12
		cfg.StallMax = [...]int{0, 0, 4}[tape.Choose(3)]
	case 7: // branches the default schedule never takes, inside the closures it executes (fast and slow paths, error paths)
		cfg.QuantumMax = [...]int{0, 2, 6}[tape.Choose(3)]
		inProf := map[int]bool{}
		funcsP := map[string]bool{}
		for _, si := range prof {
			inProf[si] = true
			funcsP[interp.VerifSites[si].Func] = true
		}
		for si, st := range interp.VerifSites {
			if funcsP[st.Func] && !inProf[si] && (st.Kind == "stmt" || st.Kind == "stmt-after-run" || st.Kind == "operand") {
				cfg.HotSites = append(cfg.HotSites, si)
			}
		}
		cfg.PerSiteBudget = [...]int{2, 5, 12}[tape.Choose(3)]
		cfg.StallMax = [...]int{0, 0, 4}[tape.Choose(3)]
	case 5: // every statement of one to three operation closures: check-then-act windows inside one operation
		cfg.QuantumMax = [...]int{0, 2, 6}[tape.Choose(3)]
		var funcs []string
		seenF := map[string]bool{}
		for _, si := range prof {
			if fn := interp.VerifSites[si].Func; !seenF[fn] {
				seenF[fn] = true
				funcs = append(funcs, fn)
			}
		}
		if len(funcs) > 0 {
			pick := map[string]bool{}
			// one closure, three, or a quarter of those the instance executes
			np := [...]int{1, 3, 1 + len(funcs)/4}[tape.Choose(3)]
			for i := np; i > 0; i-- {
				pick[funcs[tape.Choose(len(funcs))]] = true
			}
			// every site of the chosen closures, including the branches the
			// default schedule did not take
			for si, st := range interp.VerifSites {
				if pick[st.Func] && (st.Kind == "stmt" || st.Kind == "stmt-after-run" || st.Kind == "operand") {
					cfg.HotSites = append(cfg.HotSites, si)
				}
			}
		}
		cfg.PerSiteBudget = [...]int{2, 5, 12}[tape.Choose(3)]
		// the task parked inside the closure may be held back while others go
		// through the same closure
		cfg.StallMax = [...]int{0, 2, 6, 20}[tape.Choose(4)]
	case 4: // preemption between a callee's exit (deferred calls included) and the delivery of its results
		cfg.QuantumMax = [...]int{0, 2, 6}[tape.Choose(3)]
		for i, st := range interp.VerifSites {
			if st.Kind == "stmt-after-run" {
				cfg.HotSites = append(cfg.HotSites, i)
			}
		}
		cfg.YieldBudget = [...]int{10, 40, 120, 400}[tape.Choose(4)]
		cfg.YieldSkip = [...]int{0, 0, 0, 20, 150}[tape.Choose(5)]
	case 0: // run to block, rare preemption
		cfg.QuantumMax = 0
	case 1: // random walk at operation boundaries
		cfg.QuantumMax = [...]int{1, 2, 4, 8}[tape.Choose(4)]
	case 2, 3: // intra-operation preemption, with stalls for 3
		cfg.QuantumMax = [...]int{0, 2, 6, 16}[tape.Choose(4)]
		nh := [...]int{1, 2, 4, 8, 16, 40}[tape.Choose(6)]
		if len(prof) > 0 {
			for i := 0; i < nh; i++ {
				cfg.HotSites = append(cfg.HotSites, prof[tape.Choose(len(prof))])
			}
		}
		cfg.YieldBudget = [...]int{10, 40, 120, 400}[tape.Choose(4)]
		// let a drawn number of hot-site hits pass first, so that the budget is
		// not always spent at the beginning of the run
		cfg.YieldSkip = [...]int{0, 0, 0, 20, 150}[tape.Choose(5)]
		if strategy == 3 {
			cfg.StallMax = 2 + tape.Choose(6)
		}
	}
	cfg.StartDelay = true
	cfg.SelSeed = uint64(tape.Choose(1 << 16))
	if hl := os.Getenv("VERIF_HOT_LINES"); hl != "" {
		// development aid: force the statement sites of the given source lines
		// ("run.go:1493,run.go:1495") to be hot in every run
		for _, it := range strings.Split(hl, ",") {
			var file string
			var line int
			if i := strings.IndexByte(it, ':'); i > 0 {
				file = it[:i]
				fmt.Sscan(it[i+1:], &line)
			}
			for i, st := range interp.VerifSites {
				if st.File == file && st.Line == line {
					cfg.HotSites = append(cfg.HotSites, i)
				}
			}
		}
		if cfg.YieldBudget == 0 {
			cfg.YieldBudget = 200
		}
	}
	return cfg
}

// ---- host callers -------------------------------------------------------

type hcOp struct {
	Kind string
	A, B int
}

type hcOut struct {
	V  int
	OK bool
}

var hcSeq atomic.Int64

func runC08HostCalls(t *testing.T, tape *Tape, o *Outcome) *Outcome {
	ncallers := 2 + tape.Choose(3)
	per := 2 + tape.Choose(5)
	object := tape.Choose(4) // 0 stateless, 1 counter, 2 kv, 3 queue
	objName := [...]string{"stateless", "counter", "kv", "queue"}[object]
	type call struct {
		op hcOp
	}
	plans := make([][]hcOp, ncallers)
	uniqv := 1
	for c := range plans {
		for i := 0; i < per; i++ {
			var op hcOp
			switch object {
			case 0:
				op = hcOp{Kind: [...]string{"F", "G", "M", "MV", "Sorted", "Emit", "Work"}[tape.Choose(7)], A: tape.Choose(40), B: 1 + tape.Choose(5)}
			case 1:
				op = hcOp{Kind: "Add", A: 1 + tape.Choose(9)}
			case 2:
				if tape.Choose(2) == 0 {
					op = hcOp{Kind: "Put", A: tape.Choose(3), B: uniqv}
					uniqv++
				} else {
					op = hcOp{Kind: "Get", A: tape.Choose(3)}
				}
			case 3:
				if tape.Choose(2) == 0 {
					op = hcOp{Kind: "Enq", A: uniqv}
					uniqv++
				} else {
					op = hcOp{Kind: "Deq"}
				}
			}
			plans[c] = append(plans[c], op)
		}
	}
	o.Desc = fmt.Sprintf("host-callers object=%s callers=%d ops-each=%d", objName, ncallers, per)
	o.Detail["object"] = objName
	o.Detail["plans"] = fmt.Sprint(plans)
	o.Detail["instances"] = []string{"hostcall-" + objName}

	var mu sync.Mutex
	var ops []porcupine.Operation
	var evalErr error
	var wrong []string
	body := func(r *Run) {
		host.Cur.Store(r.NewSink(16, nil))
		var it *interp.Interpreter
		fns := map[string]any{}
		r.Spawn("c0", func() {
			it = NewInterpFS(nil)
			if _, evalErr = it.Eval(hostcall.Src); evalErr != nil {
				return
			}
			for _, n := range []string{"F", "G", "MV", "Add", "Put", "Get", "Enq", "Deq", "Sorted", "Emit", "Work"} {
				v, err := it.Eval("hostcall." + n)
				if err != nil {
					evalErr = err
					return
				}
				fns[n] = v.Interface()
			}
			v, err := it.Eval("hostcall.T{K: 2}.M")
			if err != nil {
				evalErr = err
				return
			}
			fns["M"] = v.Interface()
			for c := 0; c < ncallers; c++ {
				c := c
				r.Spawn(fmt.Sprintf("h%d", c), func() {
					for _, op := range plans[c] {
						inv := hcSeq.Add(1)
						var out hcOut
						switch op.Kind {
						case "F":
							out.V = fns["F"].(func(int) int)(op.A)
						case "G":
							out.V = fns["G"].(func(int, int) int)(op.A, op.B)
						case "M":
							out.V = fns["M"].(func(int) int)(op.A)
						case "MV":
							out.V = fns["MV"].(func(int) int)(op.A)
						case "Sorted":
							out.V = fns["Sorted"].(func(int) int)(op.A)
						case "Emit":
							out.V = fns["Emit"].(func(int) int)(op.A)
						case "Work":
							out.V = fns["Work"].(func(int) int)(op.A % 9)
						case "Add":
							out.V = fns["Add"].(func(int) int)(op.A)
						case "Put":
							out.V = fns["Put"].(func(int, int) int)(op.A, op.B)
						case "Get":
							out.V = fns["Get"].(func(int) int)(op.A)
						case "Enq":
							out.OK = fns["Enq"].(func(int) bool)(op.A)
						case "Deq":
							out.V = fns["Deq"].(func() int)()
						}
						ret := hcSeq.Add(1)
						mu.Lock()
						ops = append(ops, porcupine.Operation{ClientId: c, Input: op, Call: inv, Output: out, Return: ret})
						mu.Unlock()
					}
				})
			}
		})
	}
	key := fmt.Sprint("hostcalls", object, ncallers, per)
	cfg := c08Cfg(t, tape, key, func(r *Run) {
		// profile with a fresh history
		mu.Lock()
		ops = nil
		mu.Unlock()
		body(r)
	})
	mu.Lock()
	ops = nil
	mu.Unlock()
	res := Simulate(t, tape, cfg, body, nil)
	r := res.Run
	fillOutcome(o, &res)
	if res.HarnessErr != "" {
		o.Inconclusive = "harness panic: " + res.HarnessErr
		return o
	}
	if evalErr != nil {
		o.Inconclusive = "hostcall definitions failed: " + evalErr.Error()
		return o
	}
	o.NonTrivial = r.Stats.Switches > 1 && r.Stats.Tasks > 2
	c08Common(o, r, &res)
	if r.Deadlock || r.BudgetHit {
		return o
	}
	if len(ops) != ncallers*per {
		o.addV("C08", "completion", "host-calls-incomplete object="+objName, "only %d of %d host calls returned", len(ops), ncallers*per)
		return o
	}
	switch object {
	case 0:
		for _, op := range ops {
			in, out := op.Input.(hcOp), op.Output.(hcOut)
			var want int
			switch in.Kind {
			case "F":
				want = hostcall.F(in.A)
			case "G":
				want = hostcall.G(in.A, in.B)
			case "M":
				want = hostcall.T{K: 2}.M(in.A)
			case "MV":
				want = hostcall.T{K: 3}.M(in.A)
			case "Sorted":
				want = hostcall.Sorted(in.A)
			case "Emit":
				want = hostcall.Emit(in.A)
			case "Work":
				want = hostcall.Work(in.A % 9)
			}
			if out.V != want {
				wrong = append(wrong, fmt.Sprintf("%s(%d,%d)=%d want %d (caller h%d)", in.Kind, in.A, in.B, out.V, want, op.ClientId))
			}
		}
		if len(wrong) > 0 {
			o.addV("C08", "isolation", "host-call-wrong-result object=stateless", "concurrent host calls returned wrong results: %s", strings.Join(wrong, "; "))
		}
	default:
		model := hcModel(object)
		resu := porcupine.CheckOperationsTimeout(model, ops, 20*time.Second)
		switch resu {
		case porcupine.Illegal:
			o.addV("C08", "linearizability", "host-call-history-not-linearizable object="+objName, "history of %d concurrent host calls on the %s is not linearizable: %s", len(ops), objName, histString(ops))
		case porcupine.Unknown:
			o.Detail["porcupine"] = "unknown (timed out)"
			o.FaultFired["porcupine-unknown"]++
		default:
			o.FaultFired["histories-checked-linearizable"]++
		}
	}
	return o
}

func histString(ops []porcupine.Operation) string {
	var s []string
	for _, op := range ops {
		s = append(s, fmt.Sprintf("h%d:%v->%v@[%d,%d]", op.ClientId, op.Input, op.Output, op.Call, op.Return))
	}
	return strings.Join(s, " ")
}

func hcModel(object int) porcupine.Model {
	switch object {
	case 1:
		return porcupine.Model{
			Init: func() interface{} { return 0 },
			Step: func(state, input, output interface{}) (bool, interface{}) {
				n := state.(int) + input.(hcOp).A
				return output.(hcOut).V == n, n
			},
		}
	case 2:
		return porcupine.Model{
			Init: func() interface{} { return [3]int{} },
			Step: func(state, input, output interface{}) (bool, interface{}) {
				st := state.([3]int)
				in, out := input.(hcOp), output.(hcOut)
				if in.Kind == "Put" {
					old := st[in.A]
					st[in.A] = in.B
					return out.V == old, st
				}
				return out.V == st[in.A], st
			},
		}
	default:
		return porcupine.Model{
			Init: func() interface{} { return "" },
			Step: func(state, input, output interface{}) (bool, interface{}) {
				var q []int
				for _, f := range strings.Fields(state.(string)) {
					var v int
					fmt.Sscan(f, &v)
					q = append(q, v)
				}
				in, out := input.(hcOp), output.(hcOut)
				if in.Kind == "Enq" {
					if len(q) < 4 {
						q = append(q, in.A)
						return out.OK, enc(q)
					}
					return !out.OK, enc(q)
				}
				if len(q) == 0 {
					return out.V == -1, enc(q)
				}
				return out.V == q[0], enc(q[1:])
			},
		}
	}
}

func enc(q []int) string {
	var s []string
	for _, v := range q {
		s = append(s, fmt.Sprint(v))
	}
	return strings.Join(s, " ")
}

// RunC08R is RunC08 plus the race oracle (race builds only).
func RunC08R(t *testing.T, tape *Tape) *Outcome {
	if RaceBuild {
		newRaceReports() // discard what earlier activity of the process reported
	}
	o := RunC08(t, tape)
	if !RaceBuild {
		return o
	}
	for _, rr := range newRaceReports() {
		switch {
		case rr.Yaegi:
			txt := rr.Text
			if len(txt) > 3000 {
				txt = txt[:3000]
			}
			o.Detail["race_report "+rr.raceSignature()] = txt
			o.addV("C08", "no-data-race", rr.raceSignature(), "the race detector reports an interpreter-induced data race between %s and %s while executing %s", rr.Funcs[0], rr.Funcs[1], o.Desc)
			o.FaultFired["race-report-yaegi"]++
		case rr.Harness:
			o.FaultFired["race-report-harness-internal"]++
			o.Detail["harness_race"] = rr.Text
		default:
			o.FaultFired["race-report-unattributed"]++
			o.Detail["unattributed_race"] = rr.Text
		}
	}
	return o
}

// The site sweep (fault enumeration over preemption sites): the first case
// indices give every template, with its largest parameters and with drawn
// ones, one run per profiled intra-operation site in which that site alone
// preempts (up to 12 times). A window that is one statement wide is thereby
// visited deliberately instead of being left to the draw of hot sites.
const c08SweepSites = 256

const c08SweepReps = 4 // rep 0: largest parameters; others: drawn parameters

func c08SweepCount() int { return len(templates) * c08SweepSites * c08SweepReps }

func c08SweepTape(seed uint64, idx int) *Tape {
	nt := len(templates)
	ti := idx % nt
	j := (idx / nt) % c08SweepSites
	rep := idx / (nt * c08SweepSites)
	pre := []int{0, ti} // variant eval-call, template
	x := Mix(seed, uint64(idx), 88)
	for _, m := range templates[ti].ParamMax {
		if rep == 0 {
			pre = append(pre, m)
		} else {
			pre = append(pre, int(splitmix(&x)%uint64(m+1)))
		}
	}
	pre = append(pre, 8, int(splitmix(&x)%3), j) // strategy 8, quantum, site
	return PrefixTape(pre, Mix(seed, uint64(idx), 8))
}

func init() {
	Props["C08"] = &PropDef{ID: "C08", Run: RunC08R, Extra: func(job *Job) map[string]any {
		return map[string]any{"site_sweep": fmt.Sprintf("case indices 0..%d: every template (largest and drawn parameters) x every profiled intra-operation site as the only preempting site (wrapping at %d sites per template)", c08SweepCount()-1, c08SweepSites)}
	}, Case: func(t *testing.T, c *CaseCtx, idx int) {
		if idx < c08SweepCount() {
			o := RunC08R(t, c08SweepTape(c.Job.Seed, idx))
			o.FaultFired["site-sweep-runs"]++
			c.Emit(o)
			return
		}
		c.Emit(RunC08R(t, NewTape(Mix(c.Job.Seed, uint64(idx), 8))))
	}}
}
