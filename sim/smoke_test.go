package sim

import (
	"context"
	"fmt"
	"testing"
	"time"

	"github.com/traefik/yaegi/interp"
	"github.com/traefik/yaegi/stdlib"
	"verif/sim/host"
)

const smokeSrc = `package main

import (
	"sync"
	"time"
	"verif/sim/host"
)

func worker(id int, in <-chan int, out chan<- int, wg *sync.WaitGroup) {
	defer wg.Done()
	for v := range in {
		time.Sleep(time.Second)
		out <- v * v
	}
}

func main() {
	in := make(chan int)
	out := make(chan int, 16)
	var wg sync.WaitGroup
	var mu sync.Mutex
	total := 0
	for i := 0; i < 3; i++ {
		wg.Add(1)
		go worker(i, in, out, &wg)
	}
	for i := 1; i <= 6; i++ {
		in <- i
	}
	close(in)
	wg.Wait()
	close(out)
	for v := range out {
		mu.Lock()
		total += v
		mu.Unlock()
	}
	host.Emit(0, total)
}
`

func NewInterp() *interp.Interpreter {
	i := interp.New(interp.Options{})
	if err := i.Use(stdlib.Symbols); err != nil {
		panic(err)
	}
	if err := i.Use(SyncOverride); err != nil {
		panic(err)
	}
	if err := i.Use(host.Symbols); err != nil {
		panic(err)
	}
	return i
}

func TestSmoke(t *testing.T) {
	for seed := uint64(0); seed < 20; seed++ {
		tape := NewTape(seed)
		var err error
		var sink *host.Sink
		t0 := time.Now()
		res := Simulate(t, tape, RunCfg{QuantumMax: 4}, func(r *Run) {
			sink = r.NewSink(64, nil)
			host.Cur.Store(sink)
			i := NewInterp()
			r.Spawn("c0", func() {
				_, err = i.EvalWithContext(context.Background(), smokeSrc)
			})
		}, nil)
		r := res.Run
		fmt.Printf("seed %d: err=%v ev=%v dec=%d ops=%d hooks=%d sim=%v wall=%v dl=%v left=%v bub=%q herr=%q hash=%x\n", seed, err, sink.Events(), r.Stats.Decisions, r.Stats.Ops, r.Stats.Hooks, r.Stats.SimTime, time.Since(t0), r.Deadlock, res.Left, res.BubbleErr, res.HarnessErr, r.TraceHash())
	}
}
