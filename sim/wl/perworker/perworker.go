package perworker

import "verif/sim/host"

// serve answers requests on the worker's private channels; every worker executes
// the same select statement with its own channels.
func serve(id int, req <-chan int, rep chan<- int, quit <-chan bool, done chan<- int) {
	served := 0
	for {
		select {
		case v := <-req:
			rep <- v*10 + id
			served++
		case <-quit:
			done <- served
			return
		}
	}
}

// Run starts Param(0) workers with private request/reply/quit channels and
// sends Param(1) requests to each, round robin.
func Run() {
	nw := 2 + host.Param(0)
	nr := 1 + host.Param(1)
	req := make([]chan int, nw)
	rep := make([]chan int, nw)
	quit := make([]chan bool, nw)
	done := make(chan int, nw)
	for w := 0; w < nw; w++ {
		req[w] = make(chan int)
		rep[w] = make(chan int)
		quit[w] = make(chan bool)
		go serve(w, req[w], rep[w], quit[w], done)
	}
	for r := 0; r < nr; r++ {
		for w := 0; w < nw; w++ {
			req[w] <- r
		}
		for w := 0; w < nw; w++ {
			host.Emit(w, <-rep[w])
		}
	}
	total := 0
	for w := 0; w < nw; w++ {
		quit[w] <- true
	}
	for w := 0; w < nw; w++ {
		total += <-done
	}
	host.Emit(100, total)
}
