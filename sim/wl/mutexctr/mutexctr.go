package mutexctr

import (
	"sync"

	"verif/sim/host"
)

type counter struct {
	mu   sync.Mutex
	n    int
	hist []int
}

func (c *counter) add(who int) {
	c.mu.Lock()
	c.n++
	c.hist = append(c.hist, who)
	c.mu.Unlock()
}

type ticket struct {
	n, sq int
	tag   [2]int
}

type dispenser struct {
	mu  sync.Mutex
	cur ticket
}

// next returns the struct by value while the unlock is deferred: the result must
// be copied before the deferred call runs.
func (d *dispenser) next() ticket {
	d.mu.Lock()
	defer d.mu.Unlock()
	d.cur.n++
	d.cur.sq = d.cur.n * d.cur.n
	d.cur.tag = [2]int{d.cur.n, -d.cur.n}
	return d.cur
}

func (d *dispenser) peekTag() [2]int {
	d.mu.Lock()
	defer d.mu.Unlock()
	return d.cur.tag
}

// Run has Param(0) workers each adding Param(1) times to a mutex-protected
// counter and history slice.
func Run() {
	nw := 2 + host.Param(0)
	per := 1 + host.Param(1)
	c := &counter{}
	var wg sync.WaitGroup
	for w := 0; w < nw; w++ {
		wg.Add(1)
		go func(id int) {
			defer wg.Done()
			for i := 0; i < per; i++ {
				c.add(id)
			}
		}(w)
	}
	wg.Wait()
	// tickets: every worker draws per tickets; all must be distinct and consistent
	d := &dispenser{}
	got := make(chan ticket, 2*nw*per)
	lists := make([][]ticket, nw)
	var wg2 sync.WaitGroup
	for w := 0; w < nw; w++ {
		wg2.Add(1)
		go func(k int) {
			defer wg2.Done()
			for i := 0; i < per; i++ {
				// the call as an operand of append, of a send, and assigned
				lists[k] = append(lists[k], d.next())
				got <- d.next()
				t := d.next()
				tg := d.peekTag()
				if tg[0] != -tg[1] {
					t.sq = -1
				}
				got <- t
			}
		}(w)
	}
	wg2.Wait()
	close(got)
	seen := map[int]bool{}
	bad := 0
	for t := range got {
		if seen[t.n] || t.sq != t.n*t.n || t.tag[0] != t.n || t.tag[1] != -t.n {
			bad++
		}
		seen[t.n] = true
	}
	for _, l := range lists {
		for _, t := range l {
			if seen[t.n] || t.sq != t.n*t.n || t.tag[0] != t.n || t.tag[1] != -t.n {
				bad++
			}
			seen[t.n] = true
		}
	}
	host.Emit(3, len(seen))
	host.Emit(4, bad)
	host.Emit(0, c.n)
	host.Emit(1, len(c.hist))
	byWho := make([]int, nw)
	for _, w := range c.hist {
		byWho[w]++
	}
	for w, n := range byWho {
		host.Emit(2, w*100+n)
	}
}
