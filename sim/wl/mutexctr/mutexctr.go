package mutexctr

import (
	"sync"

	"verif/sim/host"
)

type counter struct {
	mu   sync.Mutex
	n    int
	hist []int
}

func (c *counter) add(who int) {
	c.mu.Lock()
	c.n++
	c.hist = append(c.hist, who)
	c.mu.Unlock()
}

// Run has Param(0) workers each adding Param(1) times to a mutex-protected
// counter and history slice.
func Run() {
	nw := 2 + host.Param(0)
	per := 1 + host.Param(1)
	c := &counter{}
	var wg sync.WaitGroup
	for w := 0; w < nw; w++ {
		wg.Add(1)
		go func(id int) {
			defer wg.Done()
			for i := 0; i < per; i++ {
				c.add(id)
			}
		}(w)
	}
	wg.Wait()
	host.Emit(0, c.n)
	host.Emit(1, len(c.hist))
	byWho := make([]int, nw)
	for _, w := range c.hist {
		byWho[w]++
	}
	for w, n := range byWho {
		host.Emit(2, w*100+n)
	}
}
