package pipeline

import "verif/sim/host"

func stage(id int, in <-chan int, out chan<- int) {
	for v := range in {
		out <- v*2 + id
	}
	close(out)
}

// Run is a pipeline of Param(0) stages fed with Param(1) items; channel
// capacity Param(2).
func Run() {
	stages := 1 + host.Param(0)
	items := 1 + host.Param(1)
	capa := host.Param(2)
	first := make(chan int, capa)
	in := first
	for s := 0; s < stages; s++ {
		out := make(chan int, capa)
		go stage(s, in, out)
		in = out
	}
	go func() {
		for i := 0; i < items; i++ {
			first <- i
		}
		close(first)
	}()
	n := 0
	for v := range in {
		host.Emit(0, v)
		n++
	}
	host.Emit(1, n)
}
