package dfr

import (
	"errors"
	"log"
	"os"
	"runtime"
	"sort"
	"strconv"
	"strings"

	"verif/sim/host"
)

// The call-tree engine of C06: one source, compiled natively into the harness
// and interpreted. A plan (host.Param) decides, per activation, which deferred
// calls are registered, what the body does and where a fault strikes.

type myErr struct{ code int }

func (e *myErr) Error() string { return "myErr" + strconv.Itoa(e.code) }

type pt struct{ x, y int }

type meth struct{ id int }

func (m meth) report(g *cur, j int) { g.emit("d-method " + strconv.Itoa(m.id) + " " + strconv.Itoa(j)) }

func (m *meth) preport(g *cur, j int) { g.emit("d-pmethod " + strconv.Itoa(m.id) + " " + strconv.Itoa(j)) }

// cur is the plan cursor of one goroutine.
type cur struct {
	pc, end int
	tag     int
	nodes   int
}

func (c *cur) next() int {
	if c.pc >= c.end {
		return 0
	}
	v := host.Param(c.pc)
	c.pc++
	return v
}

func (c *cur) emit(s string) { host.EmitS(c.tag, s) }

// Classify reports dynamic type and content of a recovered value. Only concrete
// types are switched on; the two interface tests use comma-ok assertions (how
// yaegi matches `case error:` in a type switch is C05's business, not C06's).
func Classify(r interface{}) string {
	switch v := r.(type) {
	case nil:
		return "nil"
	case string:
		return "s:" + v
	case int:
		return "i:" + strconv.Itoa(v)
	case *myErr:
		return "E:" + strconv.Itoa(v.code)
	case pt:
		return "pt:" + strconv.Itoa(v.x) + "," + strconv.Itoa(v.y)
	case host.Pt:
		return "hpt:" + strconv.Itoa(v.X) + "," + strconv.Itoa(v.Y)
	}
	if _, ok := r.(runtime.Error); ok {
		return "RTFAULT"
	}
	if e, ok := r.(error); ok {
		return "e:" + e.Error()
	}
	return "other"
}

func named(g *cur, id, j, x int) { g.emit("d-named " + strconv.Itoa(id) + " " + strconv.Itoa(j) + " x=" + strconv.Itoa(x)) }

// recoverNamed is a package-level function deferred by name which calls recover
// itself (directly: it must stop the panic).
func recoverNamed(g *cur, id, j int) {
	r := recover()
	g.emit("d-recover-named " + strconv.Itoa(id) + " " + strconv.Itoa(j) + " " + Classify(r))
}

// mkDeferred returns the function a defer statement is applied to.
func mkDeferred(g *cur, id, j int) func() {
	return func() { g.emit("d-made " + strconv.Itoa(id) + " " + strconv.Itoa(j)) }
}

func sq(x int) int { return x*x + 1 }

func deepRecover(g *cur) {
	// recover called one call deeper than the deferred function: must not stop the panic
	r := recover()
	g.emit("deep-recover " + Classify(r))
}

type faulter struct{ depth int }

func (f *faulter) do(g *cur, id, kind int) { fault(g, id, kind) }

type quiet struct{ n int }

// methods whose receiver has no name
func (quiet) do(g *cur, id, kind int) { fault(g, id, kind) }

func (*quiet) pdo(g *cur, id, kind int) {
	defer func() { g.emit("d-unnamed-recv " + strconv.Itoa(id)) }()
	fault(g, id, kind)
}

// faultVia raises the fault directly, inside a function literal, through a
// method (named or unnamed receiver), or through a function value.
func faultVia(g *cur, id, kind, shape int) {
	switch shape % 6 {
	case 4:
		quiet{id}.do(g, id, kind)
	case 5:
		(&quiet{id}).pdo(g, id, kind)
	case 0:
		fault(g, id, kind)
	case 1:
		func() { fault(g, id, kind) }()
	case 2:
		(&faulter{id}).do(g, id, kind)
	case 3:
		fv := fault
		fv(g, id, kind)
	}
}

func fault(g *cur, id, kind int) {
	g.emit("fault " + strconv.Itoa(id) + " kind=" + strconv.Itoa(kind))
	switch kind {
	case 0:
		panic("boom" + strconv.Itoa(id))
	case 1:
		panic(errors.New("err" + strconv.Itoa(id)))
	case 2:
		panic(1000 + id)
	case 3:
		panic(pt{id, 7})
	case 4:
		panic(&myErr{id})
	case 5:
		var p *pt
		g.emit(strconv.Itoa(p.x))
	case 6:
		a := []int{1, 2, 3}
		i := 3 + id
		g.emit(strconv.Itoa(a[i]))
	case 7:
		a := []int{1, 2, 3}
		lo := 2 + id%2
		hi := 1
		g.emit(strconv.Itoa(len(a[lo:hi])))
	case 8:
		z := id - id
		g.emit(strconv.Itoa(10 / z))
	case 9:
		var m map[int]int
		m[id] = 1
	case 10:
		var x interface{} = "str"
		n := x.(int)
		g.emit(strconv.Itoa(n))
	case 11:
		ch := make(chan int)
		close(ch)
		close(ch)
	case 12:
		host.BoomStr("hostboom" + strconv.Itoa(id))
	case 13:
		panic(host.Pt{X: id, Y: 3})
	case 14:
		// a panic raised inside a callback that a host function calls
		xs := []int{2, 1, 3}
		sort.Slice(xs, func(i, j int) bool { panic("boomcb" + strconv.Itoa(id)) })
	case 15:
		strings.Map(func(r rune) rune { panic(1500 + id) }, "ab")
	case 16:
		// process exit is turned into a panic by the restricted standard library;
		// the natively compiled twin must not really exit
		if host.Interpreted() {
			os.Exit(3)
		}
		panic("os.Exit(3)")
	case 17:
		if host.Interpreted() {
			log.Fatal("boomlf", id)
		}
		panic("boomlf" + strconv.Itoa(id))
	case 18:
		// run-time faults in less usual syntactic places: the condition of an if
		a := []int{1, 2, 3}
		i := 3 + id
		if a[i] > 0 {
			g.emit("unreachable-if")
		}
	case 19:
		// the condition of a for statement
		z := id - id
		for i := 0; i < 10/z; i++ {
			g.emit("unreachable-for")
		}
	case 20:
		// an operand of a composite literal
		a := []int{1, 2, 3}
		i := 3 + id
		s := []int{1, a[i], 3}
		g.emit(strconv.Itoa(len(s)))
	case 21:
		// the left-hand side of an assignment
		a := []int{1, 2, 3}
		i := 3 + id
		a[i] = 5
		g.emit(strconv.Itoa(a[0]))
	case 22:
		// an argument of a call
		var p *pt
		g.emit(strconv.Itoa(sq(p.y)))
	case 23:
		// the operand of a return statement
		g.emit(strconv.Itoa(conv("str" + strconv.Itoa(id))))
	case 24:
		// the tag of a switch statement
		var m map[string][]int
		switch m["k"][id] {
		case 1:
			g.emit("unreachable-switch")
		}
	}
}

func conv(x interface{}) int { return x.(int) }

// node is one activation.
func node(g *cur, depth, id int) (res int) {
	g.nodes++
	g.emit("enter " + strconv.Itoa(id))
	nd := g.next() % 4
	counter := id * 100
	for j := 0; j < nd; j++ {
		kind := g.next() % 23
		switch kind {
		case 19:
			// operands that are themselves calls, the defer statement executed
			// several times in the same frame
			for i := 0; i < 3; i++ {
				defer named(g, id, j, sq(i+id))
				defer host.EmitS(g.tag, "d-nest "+strconv.Itoa(id)+" "+strconv.Itoa(sq(i)))
			}
		case 20:
			// the builtin deferred directly: recover is then not called BY a deferred
			// function and stops nothing
			defer recover()
		case 22:
			// the builtin deferred by a deferred function literal (what that does is
			// whatever the compiled twin does)
			defer func(jj int) {
				defer recover()
				g.emit("d-nested-defer-recover " + strconv.Itoa(id) + " " + strconv.Itoa(jj))
			}(j)
		case 21:
			// a deferred builtin that raises: it runs when the function ends, not at
			// the defer statement, and replaces a panic in flight
			defer panic("dpanic" + strconv.Itoa(id))
		case 17:
			// recover reached through a closure variable called BY a deferred
			// literal: one call too deep, it must not stop the panic (a deferred
			// literal registered before it does). Self-contained: the activation
			// goes on normally afterwards.
			func() {
				defer func() {
					r := recover()
					g.emit("d-indirect-net " + strconv.Itoa(id) + " " + Classify(r))
				}()
				rec := func() {
					r := recover()
					g.emit("d-indirect-recover " + strconv.Itoa(id) + " " + Classify(r))
				}
				defer func() { rec() }()
				panic("boomind" + strconv.Itoa(id))
			}()
		case 18:
			// probe: a closure variable that recovers, deferred directly: it IS the
			// deferred function and must stop the panic. Self-contained, with a
			// safety net, so that the listed finding does not disturb the rest.
			func() {
				defer func() { _ = recover() }()
				recv := func() {
					r := recover()
					g.emit("d-closure-recover " + strconv.Itoa(id) + " " + Classify(r))
				}
				defer recv()
				panic("boomclo" + strconv.Itoa(id))
			}()
		case 15:
			// the function value of a defer statement is fixed at the statement
			defer mkDeferred(g, id, j)()
		case 16:
			fv := func() { g.emit("d-fv-first " + strconv.Itoa(id)) }
			defer fv()
			fv = func() { g.emit("d-fv-second " + strconv.Itoa(id)) }
			if id < 0 {
				fv()
			}
		case 11:
			defer recoverNamed(g, id, j)
		case 12:
			// a deferred literal that panics although its function returns normally
			defer func(jj int) {
				g.emit("d-late-panic " + strconv.Itoa(id) + " " + strconv.Itoa(jj))
				panic("late" + strconv.Itoa(id))
			}(j)
		case 13:
			// a deferred builtin that faults: close of an already closed channel
			cc := make(chan int)
			close(cc)
			defer close(cc)
		case 14:
			// a deferred host function that panics
			defer host.BoomStr("hostboomd" + strconv.Itoa(id))
		case 0:
			defer func(jj int) { g.emit("d-lit " + strconv.Itoa(id) + " " + strconv.Itoa(jj)) }(j)
		case 10:
			// probe: a deferred literal capturing a variable declared in the loop body
			jj := j
			defer func() { g.emit("d-cap " + strconv.Itoa(id) + " " + strconv.Itoa(jj)) }()
		case 1:
			defer named(g, id, j, counter)
			counter++
		case 2:
			m := meth{id*10 + j}
			defer m.report(g, j)
			m.id = -1
		case 3:
			ch := make(chan int, 1)
			defer func() {
				_, ok := <-ch
				g.emit("d-chan-closed " + strconv.FormatBool(!ok))
			}()
			defer close(ch)
		case 4:
			defer host.EmitS(g.tag, "d-host "+strconv.Itoa(id)+" "+strconv.Itoa(counter))
			counter += 10
		case 5:
			defer func(jj, mode int) {
				r := recover()
				g.emit("d-recover " + strconv.Itoa(id) + " " + strconv.Itoa(jj) + " " + Classify(r))
				if r != nil {
					switch mode {
					case 1:
						res = -id - 1000 // named result altered by the recovering function
					case 2:
						panic("again" + strconv.Itoa(id)) // recover then re-panic
					case 3:
						panic(r) // re-panic with the same value
					case 4:
						// a second recover in the same deferred call: the panic has been
						// stopped already, it returns nil
						g.emit("d-recover-twice " + strconv.Itoa(id) + " " + Classify(recover()))
					}
				}
			}(j, g.next()%5)
		case 6:
			defer func() { deepRecover(g) }()
		case 7:
			for i := 0; i < 2; i++ {
				defer func(v int) { g.emit("d-loop " + strconv.Itoa(id) + " v=" + strconv.Itoa(v)) }(i * 10)
			}
		case 8:
			pm := &meth{id*10 + j}
			defer pm.preport(g, j)
		case 9:
			mp := map[int]int{1: 1, 2: 2}
			defer func() { g.emit("d-map-len " + strconv.Itoa(len(mp))) }()
			defer delete(mp, 1)
		}
	}
	act := g.next() % 9
	if depth >= 3 && (act == 1 || act == 2 || act == 4 || act == 8) {
		act = 0
	}
	if g.nodes > 9 && act != 3 {
		act = 0
	}
	switch act {
	case 0, 5:
		res = id
	case 1:
		res = id + node(g, depth+1, id*3+1)
	case 2:
		a := node(g, depth+1, id*3+1)
		b := node(g, depth+1, id*3+2)
		res = a + b
	case 3:
		fault(g, id, g.next()%25)
		res = -1
	case 6:
		k := g.next() % 25
		faultVia(g, id, k, g.next())
		res = -1
	case 4:
		// child goroutine with its own subtree and top-level recover, joined by channel
		n := g.next() % 8
		sub := &cur{pc: g.pc, end: g.pc + n, tag: g.tag*10 + 1 + id%5}
		if sub.end > g.end {
			sub.end = g.end
		}
		g.pc = sub.end
		done := make(chan int)
		go func() {
			r, ok := 0, false
			defer func() {
				rec := recover()
				sub.emit("g-top " + Classify(rec))
				if !ok {
					r = 0
				}
				done <- r
			}()
			r = node(sub, depth+1, id*3+1)
			ok = true
		}()
		res = id + <-done
	case 8:
		// probe: a callee that panics after setting its named result must not
		// change the variable its result was going to be assigned to
		v := -7
		func() {
			defer func() { g.emit("probe-recover " + Classify(recover())) }()
			v = node(g, depth+1, id*3+1)
		}()
		g.emit("probe-alias " + strconv.Itoa(id) + " v=" + strconv.Itoa(v))
		res = id
	case 7:
		// panic in the middle of a function that already has results set
		res = id
		if g.next()%2 == 1 {
			fault(g, id, g.next()%25)
		}
	}
	g.emit("leave " + strconv.Itoa(id) + " res=" + strconv.Itoa(res))
	return res
}

// strayRecover calls recover outside any deferred function, when no panic is in
// flight: it must return nil whatever earlier evaluations did (an uncaught panic
// of an earlier plan on the same interpreter is over).
func strayRecover(g *cur) {
	if r := recover(); r != nil {
		g.emit("stray-recover " + Classify(r))
	}
}

// Run executes the plan under a top-level recover (what a compiled program's
// main would see).
func Run() {
	g := &cur{end: host.NParams()}
	strayRecover(g)
	defer func() {
		r := recover()
		g.emit("top " + Classify(r))
	}()
	res := node(g, 0, 1)
	g.emit("result " + strconv.Itoa(res))
}

// RunRaw executes the plan without a top-level recover: an uncaught panic must
// come back from Eval as an error.
func RunRaw() int {
	g := &cur{end: host.NParams()}
	if r := recover(); r != nil {
		// (the same, written in place: the function called by the top-level statement)
		g.emit("stray-recover " + Classify(r))
	}
	res := node(g, 0, 1)
	g.emit("result " + strconv.Itoa(res))
	return res
}
