package dfr

import _ "embed"

// Src is the source text of dfr.go.
//
//go:embed dfr.go
var Src string
