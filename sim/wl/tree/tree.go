package tree

import "verif/sim/host"

func node(depth, fan, v int, out chan<- int) {
	if depth == 0 {
		out <- v
		return
	}
	sub := make(chan int)
	for i := 0; i < fan; i++ {
		go node(depth-1, fan, v*fan+i, sub)
	}
	s := 0
	for i := 0; i < fan; i++ {
		s += <-sub
	}
	out <- s + depth
}

// Run spawns a tree of goroutines of depth Param(0) and fan-out Param(1).
func Run() {
	depth := 1 + host.Param(0)
	fan := 1 + host.Param(1)
	out := make(chan int)
	go node(depth, fan, 1, out)
	host.Emit(0, <-out)
}
