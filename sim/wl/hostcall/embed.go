package hostcall

import _ "embed"

// Src is the source text of hostcall.go.
//
//go:embed hostcall.go
var Src string
