package hostcall

import (
	"fmt"
	"sort"
	"strings"
	"sync"
)

// F is stateless: locals, a loop, a closure, a composite, a map and a deferred
// function altering the named result.
func F(x int) (r int) {
	defer func() { r++ }()
	acc := 0
	add := func(d int) { acc += d }
	for i := 0; i <= x%7; i++ {
		add(i * x)
	}
	arr := []int{x, acc, x + acc}
	m := map[int]int{x: acc}
	return arr[2] + m[x]
}

// T carries a receiver value.
type T struct{ K int }

// M is a method reached through the exported wrapper of a method value.
func (t T) M(x int) int { return G(x, t.K) }

// G is a plain two argument function with a variadic helper.
func G(a, b int) int {
	s := 0
	for i := a; i < a+3; i++ {
		s += i * b
	}
	return s + sum(a, b, s)
}

func sum(xs ...int) int {
	t := 0
	for _, x := range xs {
		t += x
	}
	return t
}

type byLast []int

func (b byLast) Len() int           { return len(b) }
func (b byLast) Less(i, j int) bool { return b[i]%10 < b[j]%10 || (b[i]%10 == b[j]%10 && b[i] < b[j]) }
func (b byLast) Swap(i, j int)      { b[i], b[j] = b[j], b[i] }

type sink struct{ parts []string }

func (s *sink) Write(p []byte) (int, error) {
	s.parts = append(s.parts, string(p))
	return len(p), nil
}

// Sorted hands an interpreted sort.Interface to the standard library.
func Sorted(x int) int {
	b := byLast{x + 17, x + 3, x + 28, x + 5, x + 11}
	sort.Sort(b)
	r := 0
	for _, v := range b {
		r = r*7 + v
	}
	return r
}

// Emit hands an interpreted io.Writer to the standard library.
func Emit(x int) int {
	w := &sink{}
	fmt.Fprintf(w, "<%d>", x)
	fmt.Fprintf(w, "[%d]", x*2)
	return len(strings.Join(w.parts, "")) + x
}

type job struct{ id, acc int }

func (j job) work(n int) int {
	for i := 0; i < n; i++ {
		j.acc += j.id + i
	}
	return j.acc
}

// Work is a method value whose method uses its value receiver as scratch space.
var Work = job{id: 5}.work

// MV is a method value stored in a variable.
var MV = T{K: 3}.M

var (
	mu  sync.Mutex
	cnt int
)

// Add adds to a mutex protected counter and returns the new total.
func Add(d int) int {
	mu.Lock()
	defer mu.Unlock()
	cnt += d
	return cnt
}

var (
	kvmu sync.RWMutex
	kv   = map[int]int{}
)

// Put stores v under k and returns the previous value.
func Put(k, v int) int {
	kvmu.Lock()
	old := kv[k]
	kv[k] = v
	kvmu.Unlock()
	return old
}

// Get returns the value under k.
func Get(k int) int {
	kvmu.RLock()
	defer kvmu.RUnlock()
	return kv[k]
}

var q = make(chan int, 4)

// Enq appends to a channel backed queue if there is room.
func Enq(v int) bool {
	select {
	case q <- v:
		return true
	default:
		return false
	}
}

// Deq removes the oldest element, or returns -1.
func Deq() int {
	select {
	case v := <-q:
		return v
	default:
		return -1
	}
}
