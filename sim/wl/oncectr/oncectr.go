package oncectr

import (
	"sync"
	"sync/atomic"

	"verif/sim/host"
)

type registry struct {
	once  sync.Once
	table []int
	inits int32
	hits  int64
}

func (r *registry) get(i int) int {
	r.once.Do(func() {
		atomic.AddInt32(&r.inits, 1)
		for k := 0; k < 6; k++ {
			r.table = append(r.table, k*k+1)
		}
	})
	atomic.AddInt64(&r.hits, 1)
	return r.table[i%len(r.table)]
}

var total int64

// Run has 2+Param(0) workers which look up a lazily built table (sync.Once) and
// add what they find to counters updated with sync/atomic: a package-level
// variable, a struct field and a local captured by the goroutines.
func Run() {
	nw := 2 + host.Param(0)
	per := 1 + host.Param(1)
	r := &registry{}
	atomic.StoreInt64(&total, 0)
	var local int32
	var flag atomic.Bool
	var wg sync.WaitGroup
	for w := 0; w < nw; w++ {
		wg.Add(1)
		go func(id int) {
			defer wg.Done()
			for i := 0; i < per; i++ {
				v := r.get(id + i)
				atomic.AddInt64(&total, int64(v))
				atomic.AddInt32(&local, 1)
				if atomic.CompareAndSwapInt32(&local, int32(nw*per), int32(nw*per)) {
					flag.Store(true)
				}
			}
		}(w)
	}
	wg.Wait()
	host.Emit(0, int(atomic.LoadInt64(&total)))
	host.Emit(1, int(atomic.LoadInt32(&r.inits)))
	host.Emit(2, int(atomic.LoadInt64(&r.hits)))
	host.Emit(3, int(atomic.LoadInt32(&local)))
	if flag.Load() {
		host.Emit(4, 1)
	} else {
		host.Emit(4, 0)
	}
	host.Emit(5, len(r.table))
}
