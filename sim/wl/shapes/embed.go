package shapes

import _ "embed"

// Src is the source text of shapes.go.
//
//go:embed shapes.go
var Src string
