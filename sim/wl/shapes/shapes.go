package shapes

import (
	"sync"

	"verif/sim/host"
)

// Interface dispatch on interpreted types: several goroutines call different
// methods of the same concrete types through an interface at the same time.

type shape interface {
	Area() int
	Perim() int
	Scale(k int) shape
}

type rect struct{ w, h int }

func (r rect) Area() int         { return r.w * r.h }
func (r rect) Perim() int        { return 2 * (r.w + r.h) }
func (r rect) Scale(k int) shape { return rect{r.w * k, r.h * k} }

type sq struct{ s int }

func (q *sq) Area() int         { return q.s * q.s }
func (q *sq) Perim() int        { return 4 * q.s }
func (q *sq) Scale(k int) shape { return &sq{q.s * k} }

func measure(id, rounds int, out chan<- int, wg *sync.WaitGroup) {
	defer wg.Done()
	var shapes []shape
	shapes = append(shapes, rect{id + 1, id + 2}, &sq{id + 3})
	a, p := 0, 0
	for r := 0; r < rounds; r++ {
		for _, s := range shapes {
			if (r+id)%2 == 0 {
				a += s.Area()
				p += s.Perim()
			} else {
				p += s.Perim()
				a += s.Scale(2).Area()
			}
		}
	}
	out <- id*1000000 + a*1000 + p
}

// Run starts 2+Param(0) goroutines doing 1+Param(1) rounds.
func Run() {
	n := 2 + host.Param(0)
	rounds := 1 + host.Param(1)
	out := make(chan int, n)
	var wg sync.WaitGroup
	for i := 0; i < n; i++ {
		wg.Add(1)
		go measure(i, rounds, out, &wg)
	}
	wg.Wait()
	close(out)
	res := make([]int, n)
	for v := range out {
		res[v/1000000] = v % 1000000
	}
	for _, v := range res {
		host.Emit(0, v)
	}
}
