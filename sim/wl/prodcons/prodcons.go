package prodcons

import (
	"sync"

	"verif/sim/host"
)

// Run has Param(0) producers sending Param(1) values each; a closer goroutine
// closes the channel when all producers are done; Param(2) consumers range over
// it and report partial sums on a result channel.
func Run() {
	np := 1 + host.Param(0)
	per := 1 + host.Param(1)
	nc := 1 + host.Param(2)
	ch := make(chan int, host.Param(3))
	var pw sync.WaitGroup
	for p := 0; p < np; p++ {
		pw.Add(1)
		go func() {
			defer pw.Done()
			for i := 1; i <= per; i++ {
				ch <- p*100 + i
			}
		}()
	}
	var mu sync.Mutex
	closed, early := false, 0
	go func() {
		pw.Wait()
		mu.Lock()
		closed = true
		mu.Unlock()
		close(ch)
	}()
	sums := make(chan int)
	for c := 0; c < nc; c++ {
		go func() {
			s, n := 0, 0
			for v := range ch {
				s += v
				n++
			}
			// a range loop over a channel ends only after the close
			mu.Lock()
			if !closed {
				early++
			}
			mu.Unlock()
			sums <- s*1000 + n
		}()
	}
	total, cnt := 0, 0
	for c := 0; c < nc; c++ {
		x := <-sums
		total += x / 1000
		cnt += x % 1000
	}
	host.Emit(0, total)
	host.Emit(1, cnt)
	mu.Lock()
	host.Emit(2, early)
	mu.Unlock()
}
