package bincalls

import (
	"strconv"
	"strings"
	"sync"

	"verif/sim/host"
)

// work is executed by all workers at once: the same binary-call statements
// (strconv, strings, a host function with a result, a host function without)
// run concurrently with different arguments.
func work(id, n int, out chan<- string, wg *sync.WaitGroup) {
	defer wg.Done()
	acc := ""
	for i := 0; i < n; i++ {
		s := strconv.Itoa(id*100 + i)
		r := strings.Repeat(s, 1+id%2)
		k := host.Twice(id*7 + i)
		a, b, _ := strings.Cut(r+":"+strconv.Itoa(k), ":")
		acc += a + "/" + b + ";"
		host.Emit(10+id, k)
	}
	out <- strconv.Itoa(id) + "=" + acc
}

// Run starts 2+Param(0) workers doing 1+Param(1) rounds each.
func Run() {
	nw := 2 + host.Param(0)
	n := 1 + host.Param(1)
	out := make(chan string, nw)
	var wg sync.WaitGroup
	for w := 0; w < nw; w++ {
		wg.Add(1)
		go work(w, n, out, &wg)
	}
	wg.Wait()
	close(out)
	res := make([]string, nw)
	for s := range out {
		id, _ := strconv.Atoi(s[:strings.Index(s, "=")])
		res[id] = s
	}
	for i, s := range res {
		host.EmitS(i, s)
	}
}
