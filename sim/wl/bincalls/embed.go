package bincalls

import _ "embed"

// Src is the source text of bincalls.go.
//
//go:embed bincalls.go
var Src string
