package ticker

import (
	"time"

	"verif/sim/host"
)

// Run drives a loop from a ticker and a sleeper goroutine on the (fake) clock.
func Run() {
	n := 1 + host.Param(0)
	t := time.NewTicker(10 * time.Millisecond)
	defer t.Stop()
	done := make(chan int)
	go func() {
		s := 0
		for i := 0; i < n; i++ {
			time.Sleep(3 * time.Millisecond)
			s += i
		}
		done <- s
	}()
	start := time.Now()
	ticks := 0
	for ticks < n {
		<-t.C
		ticks++
	}
	host.Emit(0, ticks)
	host.Emit(1, <-done)
	host.Emit(2, int(time.Since(start)/time.Millisecond))
}
