package fanout

import (
	"sync"

	"verif/sim/host"
)

type job struct {
	id int
	v  int
}

type result struct {
	id  int
	out int
	by  int
}

// state tells the workers whether the job channel has been closed: a range loop
// over a channel may only end after the close.
type state struct {
	mu     sync.Mutex
	closed bool
	early  int
}

func worker(id int, jobs <-chan job, results chan<- result, wg *sync.WaitGroup, st *state) {
	defer wg.Done()
	defer func() {
		st.mu.Lock()
		if !st.closed {
			st.early++
		}
		st.mu.Unlock()
	}()
	for j := range jobs {
		acc := 0
		for k := 0; k <= j.v; k++ {
			acc += k * (id*0 + 1)
		}
		results <- result{id: j.id, out: acc, by: id}
	}
}

// Run is a fan-out/fan-in pool: Param(0) workers, Param(1) jobs, capacity Param(2).
func Run() {
	nw := 1 + host.Param(0)
	nj := 1 + host.Param(1)
	capa := host.Param(2)
	jobs := make(chan job, capa)
	results := make(chan result, capa)
	var wg sync.WaitGroup
	st := &state{}
	for w := 0; w < nw; w++ {
		wg.Add(1)
		go worker(w, jobs, results, &wg, st)
	}
	go func() {
		for i := 0; i < nj; i++ {
			jobs <- job{id: i, v: i + 3}
		}
		st.mu.Lock()
		st.closed = true
		st.mu.Unlock()
		close(jobs)
	}()
	go func() {
		wg.Wait()
		close(results)
	}()
	got := make([]int, nj)
	cnt := 0
	for r := range results {
		got[r.id] = r.out
		cnt++
	}
	for i, v := range got {
		host.Emit(0, i*1000+v)
	}
	host.Emit(1, cnt)
	st.mu.Lock()
	host.Emit(2, st.early)
	st.mu.Unlock()
}
