package methods

import (
	"sync"

	"verif/sim/host"
)

type acc struct {
	id  int
	sum int
}

func (a *acc) run(vals []int, wg *sync.WaitGroup) {
	defer wg.Done()
	for _, v := range vals {
		a.sum += v * (a.id + 1)
	}
}

func square(x int, out chan<- int) { out <- x * x }

type task struct{ id, n int }

// prun has a pointer receiver: started on a range value variable it keeps the
// address of that iteration's variable.
func (t *task) prun(res []int, wg *sync.WaitGroup) {
	defer wg.Done()
	s := 0
	for i := 0; i <= t.n; i++ {
		s += t.id*10 + i
	}
	res[t.id] = s
}

func byAddr(t *task, res []int, wg *sync.WaitGroup) {
	defer wg.Done()
	res[t.id] += 1000 * (t.id + 1)
}

// job has a value receiver that the method uses as scratch space: every call of
// a method value must work on its own copy.
type job struct{ id, acc int }

func (j job) work(n int) int {
	for i := 0; i < n; i++ {
		j.acc += j.id + i
	}
	return j.acc
}

// list has a pointer-receiver method that reassigns its receiver variable.
type list struct {
	v    int
	next *list
}

func (l *list) sum() int {
	s := 0
	for l != nil {
		s += l.v
		l = l.next
	}
	return s
}

// Run starts goroutines on methods, on function values and on named functions.
func Run() {
	n := 2 + host.Param(0)
	m := 1 + host.Param(1)
	accs := make([]*acc, n)
	var wg sync.WaitGroup
	for i := range accs {
		accs[i] = &acc{id: i}
		vals := make([]int, m)
		for j := range vals {
			vals[j] = i + j
		}
		wg.Add(1)
		go accs[i].run(vals, &wg)
	}
	wg.Wait()
	for _, a := range accs {
		host.Emit(0, a.sum)
	}
	out := make(chan int, n)
	var fv func(int, chan<- int) = square
	for i := 0; i < n; i++ {
		if i%2 == 0 {
			go fv(i, out)
		} else {
			go square(i, out)
		}
	}
	s := 0
	for i := 0; i < n; i++ {
		s += <-out
	}
	host.Emit(1, s)
	// range value variables whose address escapes to goroutines; no function
	// literal in the loop bodies
	tasks := make([]task, n)
	for i := range tasks {
		tasks[i] = task{id: i, n: m + i}
	}
	rres := make([]int, n)
	for _, t := range tasks {
		wg.Add(1)
		go t.prun(rres, &wg)
	}
	wg.Wait()
	for _, t := range tasks {
		wg.Add(1)
		go byAddr(&t, rres, &wg)
	}
	wg.Wait()
	for _, v := range rres {
		host.Emit(3, v)
	}
	// one stored method value called by every goroutine, twice each
	shared := job{id: 7}.work
	ls := &list{1, &list{2, &list{3, nil}}}
	lsum := ls.sum
	res := make([]int, n)
	for i := 0; i < n; i++ {
		own := job{id: i}.work
		wg.Add(1)
		go func() {
			defer wg.Done()
			a := shared(m + 2)
			b := shared(m + 2)
			c := own(3)
			d := own(3)
			res[i] = a*1000000 + (b-a)*100000 + c*100 + (d - c) + lsum()*10000 + lsum()
		}()
	}
	wg.Wait()
	for _, v := range res {
		host.Emit(2, v)
	}
}
