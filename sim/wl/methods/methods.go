package methods

import (
	"sync"

	"verif/sim/host"
)

type acc struct {
	id  int
	sum int
}

func (a *acc) run(vals []int, wg *sync.WaitGroup) {
	defer wg.Done()
	for _, v := range vals {
		a.sum += v * (a.id + 1)
	}
}

func square(x int, out chan<- int) { out <- x * x }

// Run starts goroutines on methods, on function values and on named functions.
func Run() {
	n := 2 + host.Param(0)
	m := 1 + host.Param(1)
	accs := make([]*acc, n)
	var wg sync.WaitGroup
	for i := range accs {
		accs[i] = &acc{id: i}
		vals := make([]int, m)
		for j := range vals {
			vals[j] = i + j
		}
		wg.Add(1)
		go accs[i].run(vals, &wg)
	}
	wg.Wait()
	for _, a := range accs {
		host.Emit(0, a.sum)
	}
	out := make(chan int, n)
	var fv func(int, chan<- int) = square
	for i := 0; i < n; i++ {
		if i%2 == 0 {
			go fv(i, out)
		} else {
			go square(i, out)
		}
	}
	s := 0
	for i := 0; i < n; i++ {
		s += <-out
	}
	host.Emit(1, s)
}
