package ifacewrap

import (
	"fmt"
	"sort"
	"strings"
	"sync"

	"verif/sim/host"
)

// Interpreted types handed to the standard library through non-empty
// interfaces: each goroutine converts ITS OWN value at the same statements.

type byLast []int

func (b byLast) Len() int           { return len(b) }
func (b byLast) Less(i, j int) bool { return b[i]%10 < b[j]%10 || (b[i]%10 == b[j]%10 && b[i] < b[j]) }
func (b byLast) Swap(i, j int)      { b[i], b[j] = b[j], b[i] }

type sink struct {
	id  int
	buf []string
}

func (s *sink) Write(p []byte) (int, error) {
	s.buf = append(s.buf, string(p))
	return len(p), nil
}

type named struct{ id int }

func (n named) String() string { return "n" + fmt.Sprint(n.id) }

func work(id, rounds int, out chan<- string, wg *sync.WaitGroup) {
	defer wg.Done()
	w := &sink{id: id}
	acc := ""
	for r := 0; r < rounds; r++ {
		xs := byLast{id*10 + 7, id*10 + 3, 91 + id, id*10 + 5, 12}
		sort.Sort(xs)
		fmt.Fprintf(w, "%d:%v", id, []int(xs))
		acc += fmt.Sprint(named{id*100 + r}) + ";"
	}
	out <- fmt.Sprint(id) + "=" + strings.Join(w.buf, "|") + "#" + acc
}

// Run starts 2+Param(0) workers doing 1+Param(1) rounds each.
func Run() {
	nw := 2 + host.Param(0)
	rounds := 1 + host.Param(1)
	out := make(chan string, nw)
	var wg sync.WaitGroup
	for i := 0; i < nw; i++ {
		wg.Add(1)
		go work(i, rounds, out, &wg)
	}
	wg.Wait()
	close(out)
	res := make([]string, nw)
	for s := range out {
		var id int
		fmt.Sscanf(s, "%d=", &id)
		res[id] = s
	}
	for i, s := range res {
		host.EmitS(i, s)
	}
}
