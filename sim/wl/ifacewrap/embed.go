package ifacewrap

import _ "embed"

// Src is the source text of ifacewrap.go.
//
//go:embed ifacewrap.go
var Src string
