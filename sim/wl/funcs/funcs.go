package funcs

import (
	"sync"

	"verif/sim/host"
)

// mk returns two closures sharing a variable of a function that has returned.
func mk(base int) (func(int) int, func() int) {
	total := 0
	add := func(d int) int {
		total += d * base
		return total
	}
	get := func() int { return total }
	return add, get
}

// stats is variadic and has several results.
func stats(id int, xs ...int) (sum, max int, tag string) {
	for _, x := range xs {
		sum += x
		if x > max {
			max = x
		}
	}
	return sum + id, max, "t" + string(rune('a'+id%26))
}

// runner returns the function a goroutine is started on.
func runner(id int) func(chan<- int) {
	k := id * 3
	return func(out chan<- int) { out <- k + id }
}

// accum is started by go statements although it has a (named) result, which it
// uses as its accumulator: the result variable must be the goroutine's own.
func accum(id, n int, res []int, wg *sync.WaitGroup) (r int) {
	defer wg.Done()
	for i := 0; i < n; i++ {
		r += id + 1
	}
	res[id] = r
	return r
}

type acc struct{ v int }

func (a *acc) bump(d int) func() int {
	return func() int { a.v += d; return a.v }
}

// Run starts goroutines on closures of returned functions, on method-made
// closures and on functions returned by functions.
func Run() {
	n := 2 + host.Param(0)
	rounds := 1 + host.Param(1)
	var wg sync.WaitGroup
	res := make([]int, n)
	tags := make([]string, n)
	for w := 0; w < n; w++ {
		add, get := mk(w + 1)
		a := &acc{v: w}
		bump := a.bump(w + 2)
		wg.Add(1)
		go func() {
			defer wg.Done()
			for i := 1; i <= rounds; i++ {
				add(i)
				bump()
			}
			s, m, t := stats(w, get(), bump(), w, rounds)
			res[w] = s*100 + m
			tags[w] = t
		}()
	}
	wg.Wait()
	for w := 0; w < n; w++ {
		host.Emit(0, res[w])
		host.EmitS(1, tags[w])
	}
	out := make(chan int, n)
	for w := 0; w < n; w++ {
		go runner(w)(out)
	}
	s := 0
	for w := 0; w < n; w++ {
		s += <-out
	}
	host.Emit(2, s)
	res2 := make([]int, n)
	for w := 0; w < n; w++ {
		wg.Add(1)
		go accum(w, 3+rounds, res2, &wg)
	}
	wg.Wait()
	for _, v := range res2 {
		host.Emit(3, v)
	}
}
