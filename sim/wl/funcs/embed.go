package funcs

import _ "embed"

// Src is the source text of funcs.go.
//
//go:embed funcs.go
var Src string
