package selmix

import (
	"time"

	"verif/sim/host"
)

// Run mixes select forms: send cases, receive cases with ok, default, and a
// time-out that cannot fire while work is runnable.
func Run() {
	n := 2 + host.Param(0)
	a := make(chan int)
	b := make(chan int, 1)
	out := make(chan int, n*2)
	quit := make(chan struct{})
	go func() {
		// producer alternates between two channels with a select on sends
		for i := 0; i < n; i++ {
			select {
			case a <- i:
			case b <- i + 100:
			}
		}
		close(quit)
	}()
	go func() {
		for {
			select {
			case v := <-a:
				out <- v
			case v, ok := <-b:
				if ok {
					out <- v
				}
			case <-quit:
				close(out)
				return
			case <-time.After(time.Hour):
				out <- -1
				close(out)
				return
			}
		}
	}()
	sum, cnt := 0, 0
	for v := range out {
		if v >= 100 {
			v -= 100
		}
		sum += v
		cnt++
	}
	// a value may still sit in b when quit wins: drain it. (No `continue` inside
	// the select clause: yaegi mishandles that sequentially, which is not a
	// concurrency matter.)
	polled := 0
	for more := true; more; {
		select {
		case v := <-b:
			sum += v - 100
			cnt++
		default:
			polled++
			more = false
		}
	}
	host.Emit(0, sum)
	host.Emit(1, cnt)
	host.Emit(2, polled)
	// several goroutines in the same select statement, each merging two channels
	// of its own until both are closed; a receive from a closed channel yields the
	// zero value, which is added BEFORE ok is looked at
	totals := make(chan int, 3)
	for m := 0; m < 3; m++ {
		x, y := make(chan int), make(chan int, 1)
		go func(k int) {
			for i := 1; i <= n; i++ {
				x <- k*10 + i
			}
			close(x)
		}(m)
		go func(k int) {
			for i := 1; i <= 2; i++ {
				y <- 1000 * (k + i)
			}
			close(y)
		}(m)
		go func() {
			total, closes := 0, 0
			for open := 2; open > 0; {
				select {
				case v, ok := <-x:
					total += v
					if !ok {
						x = nil
						open--
						closes++
					}
				case v, ok := <-y:
					total += v
					if !ok {
						y = nil
						open--
						closes += 10
					}
				}
			}
			totals <- total*100 + closes
		}()
	}
	t3 := 0
	for m := 0; m < 3; m++ {
		t3 += <-totals
	}
	host.Emit(3, t3)
}
