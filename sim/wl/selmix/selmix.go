package selmix

import (
	"time"

	"verif/sim/host"
)

// Run mixes select forms: send cases, receive cases with ok, default, and a
// time-out that cannot fire while work is runnable.
func Run() {
	n := 2 + host.Param(0)
	a := make(chan int)
	b := make(chan int, 1)
	out := make(chan int, n*2)
	quit := make(chan struct{})
	go func() {
		// producer alternates between two channels with a select on sends
		for i := 0; i < n; i++ {
			select {
			case a <- i:
			case b <- i + 100:
			}
		}
		close(quit)
	}()
	go func() {
		for {
			select {
			case v := <-a:
				out <- v
			case v, ok := <-b:
				if ok {
					out <- v
				}
			case <-quit:
				close(out)
				return
			case <-time.After(time.Hour):
				out <- -1
				close(out)
				return
			}
		}
	}()
	sum, cnt := 0, 0
	for v := range out {
		if v >= 100 {
			v -= 100
		}
		sum += v
		cnt++
	}
	// a value may still sit in b when quit wins: drain it. (No `continue` inside
	// the select clause: yaegi mishandles that sequentially, which is not a
	// concurrency matter.)
	polled := 0
	for more := true; more; {
		select {
		case v := <-b:
			sum += v - 100
			cnt++
		default:
			polled++
			more = false
		}
	}
	host.Emit(0, sum)
	host.Emit(1, cnt)
	host.Emit(2, polled)
}
