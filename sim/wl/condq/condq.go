package condq

import (
	"sync"

	"verif/sim/host"
)

// A bounded queue guarded by a mutex and two condition variables.
type queue struct {
	mu       sync.Mutex
	notEmpty *sync.Cond
	notFull  *sync.Cond
	items    []int
	max      int
	closed   bool
}

func newQueue(max int) *queue {
	q := &queue{max: max}
	q.notEmpty = sync.NewCond(&q.mu)
	q.notFull = sync.NewCond(&q.mu)
	return q
}

func (q *queue) put(v int) {
	q.mu.Lock()
	for len(q.items) >= q.max {
		q.notFull.Wait()
	}
	q.items = append(q.items, v)
	q.notEmpty.Signal()
	q.mu.Unlock()
}

func (q *queue) get() (int, bool) {
	q.mu.Lock()
	defer q.mu.Unlock()
	for len(q.items) == 0 && !q.closed {
		q.notEmpty.Wait()
	}
	if len(q.items) == 0 {
		return 0, false
	}
	v := q.items[0]
	q.items = q.items[1:]
	q.notFull.Signal()
	return v, true
}

func (q *queue) close() {
	q.mu.Lock()
	q.closed = true
	q.notEmpty.Broadcast()
	q.mu.Unlock()
}

// Run has Param(0)+1 producers and Param(1)+1 consumers on a queue of size Param(2)+1.
func Run() {
	np := 1 + host.Param(0)
	nc := 1 + host.Param(1)
	q := newQueue(1 + host.Param(2))
	per := 3
	var pw, cw sync.WaitGroup
	sums := make([]int, nc)
	counts := make([]int, nc)
	for c := 0; c < nc; c++ {
		cw.Add(1)
		go func() {
			defer cw.Done()
			for {
				v, ok := q.get()
				if !ok {
					return
				}
				sums[c] += v
				counts[c]++
			}
		}()
	}
	for p := 0; p < np; p++ {
		pw.Add(1)
		go func() {
			defer pw.Done()
			for i := 1; i <= per; i++ {
				q.put(p*100 + i)
			}
		}()
	}
	pw.Wait()
	q.close()
	cw.Wait()
	total, n := 0, 0
	for c := range sums {
		total += sums[c]
		n += counts[c]
	}
	host.Emit(0, total)
	host.Emit(1, n)
}
