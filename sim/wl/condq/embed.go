package condq

import _ "embed"

// Src is the source text of condq.go.
//
//go:embed condq.go
var Src string
