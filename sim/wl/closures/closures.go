package closures

import (
	"sync"

	"verif/sim/host"
)

// Run starts goroutine closures capturing per-iteration loop variables and
// redeclared variables.
func Run() {
	n := 2 + host.Param(0)
	res := make([]int, n)
	var wg sync.WaitGroup
	for i := 0; i < n; i++ {
		wg.Add(1)
		go func() {
			defer wg.Done()
			res[i] = i * i
		}()
	}
	wg.Wait()
	for _, v := range res {
		host.Emit(0, v)
	}
	res2 := make([]int, n)
	for i := range res2 {
		j := i * 3
		k := j
		wg.Add(1)
		go func(slot int) {
			defer wg.Done()
			k := k + 1
			res2[slot] = j + k
		}(i)
	}
	wg.Wait()
	for _, v := range res2 {
		host.Emit(1, v)
	}
	// closures returned from a factory, each with its own captured state
	mk := func(base int) func() int {
		c := base
		return func() int {
			c++
			return c
		}
	}
	ch := make(chan int, n)
	for i := 0; i < n; i++ {
		f := mk(i * 10)
		wg.Add(1)
		go func() {
			defer wg.Done()
			f()
			ch <- f()
		}()
	}
	wg.Wait()
	close(ch)
	s := 0
	for v := range ch {
		s += v
	}
	host.Emit(2, s)
	// the "scoped lock" idiom: a function literal called on the spot in the loop
	// body, which itself starts a goroutine capturing the loop variable
	var mu sync.Mutex
	res3 := make([]int, n)
	started := 0
	for i := 0; i < n; i++ {
		func() {
			mu.Lock()
			defer mu.Unlock()
			started++
			wg.Add(1)
			go func() {
				defer wg.Done()
				res3[i] = i*i + 1
			}()
		}()
	}
	wg.Wait()
	for _, v := range res3 {
		host.Emit(3, v)
	}
	host.Emit(4, started)
}
