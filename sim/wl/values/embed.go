package values

import _ "embed"

// Src is the source text of this package's workload file: the very bytes the Go
// compiler built into the harness are given to the interpreter.
//
//go:embed values.go
var Src string
