package values

import (
	"bytes"
	"sort"
	"strconv"
	"sync"

	"verif/sim/host"
)

type rec struct {
	id  int
	arr [3]int
	tag string
}

type point struct{ x, y int }

type logger struct {
	id  int
	buf bytes.Buffer
}

func (l *logger) note(v int) { l.buf.WriteString(strconv.Itoa(l.id) + ":" + strconv.Itoa(v) + ";") }

type store struct {
	mu sync.Mutex
	m  map[string]point
}

func (s *store) move(k string, dx int) {
	s.mu.Lock()
	p := s.m[k] // copy out, modify, copy back
	p.x += dx
	p.y -= dx
	s.m[k] = p
	s.mu.Unlock()
}

// Run: 2+Param(0) producers send struct values holding an array over one
// channel and go on modifying their own copy; consumers sum what they receive,
// keep a private bytes.Buffer inside an interpreted struct and update a map of
// structs under a mutex. Values must be copied at send, receive and assignment.
func Run() {
	np := 2 + host.Param(0)
	per := 1 + host.Param(1)
	ch := make(chan rec, host.Param(0))
	arrs := make(chan [3]int, 1)
	st := &store{m: map[string]point{"a": {1, 1}, "b": {2, 2}}}
	var pw sync.WaitGroup
	for p := 0; p < np; p++ {
		pw.Add(1)
		go func(id int) {
			defer pw.Done()
			r := rec{id: id, tag: "p" + strconv.Itoa(id)}
			for i := 0; i < per; i++ {
				r.arr[i%3] = id*10 + i
				ch <- r
				r.arr[i%3] = -1000 // after the send: must not be seen by the receiver
				r.tag += "x"
			}
		}(p)
	}
	go func() {
		pw.Wait()
		close(ch)
	}()
	sums := make(chan string, 2)
	for c := 0; c < 2; c++ {
		go func(id int) {
			lg := &logger{id: id}
			total := 0
			for r := range ch {
				a := r.arr // array assignment copies
				a[0] += 0
				r.arr[1] = 7 // private copy of the received value
				total += a[0] + a[1] + a[2] + len(r.tag)
				lg.note(a[0] + a[1] + a[2])
				st.move("a", 1)
				st.move("b", r.id)
			}
			if id == 0 {
				arrs <- [3]int{total, id, 1}
			}
			sums <- strconv.Itoa(total) + "/" + strconv.Itoa(lg.buf.Len()-lg.buf.Len()%1)
		}(c)
	}
	s1, s2 := <-sums, <-sums
	got := <-arrs
	t1, _ := strconv.Atoi(s1[:indexByte(s1, '/')])
	t2, _ := strconv.Atoi(s2[:indexByte(s2, '/')])
	host.Emit(0, t1+t2)
	l1, _ := strconv.Atoi(s1[indexByte(s1, '/')+1:])
	l2, _ := strconv.Atoi(s2[indexByte(s2, '/')+1:])
	host.Emit(1, l1+l2)
	host.Emit(2, got[1]*100+got[2])
	st.mu.Lock()
	keys := []string{}
	for k := range st.m {
		keys = append(keys, k)
	}
	sort.Strings(keys)
	for _, k := range keys {
		host.Emit(3, st.m[k].x*1000+st.m[k].y+500)
	}
	st.mu.Unlock()
}

func indexByte(s string, c byte) int {
	for i := 0; i < len(s); i++ {
		if s[i] == c {
			return i
		}
	}
	return -1
}
