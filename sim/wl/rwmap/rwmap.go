package rwmap

import (
	"sync"

	"verif/sim/host"
)

type store struct {
	mu sync.RWMutex
	m  map[int]int
}

func (s *store) put(k, v int) {
	s.mu.Lock()
	s.m[k] += v
	s.mu.Unlock()
}

func (s *store) get(k int) int {
	s.mu.RLock()
	defer s.mu.RUnlock()
	return s.m[k]
}

// Run has writers and readers on an RWMutex-protected map.
func Run() {
	nw := 1 + host.Param(0)
	per := 1 + host.Param(1)
	s := &store{m: map[int]int{}}
	var wg sync.WaitGroup
	for w := 0; w < nw; w++ {
		wg.Add(2)
		go func() {
			defer wg.Done()
			for i := 0; i < per; i++ {
				s.put(i%3, w+1)
			}
		}()
		go func() {
			defer wg.Done()
			for i := 0; i < per; i++ {
				if s.get(i%3) < 0 {
					host.Emit(9, -1)
				}
			}
		}()
	}
	wg.Wait()
	for k := 0; k < 3; k++ {
		host.Emit(0, k*10000+s.get(k))
	}
}
