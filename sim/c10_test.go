package sim

import (
	"fmt"
	"testing"
	"time"
)

func TestC10Dev(t *testing.T) {
	t0 := time.Now()
	sigs := map[string]int{}
	n := 400
	nt := 0
	for seed := uint64(0); seed < uint64(n); seed++ {
		o := RunC10(t, NewTape(Mix(1, seed, 10)))
		if o.Inconclusive != "" {
			fmt.Printf("seed %d INCONCLUSIVE %s :: %s\n", seed, o.Inconclusive, o.Desc)
			continue
		}
		if o.NonTrivial {
			nt++
		}
		for _, v := range o.Violations {
			if sigs[v.Signature] == 0 {
				fmt.Printf("seed %d %s\n   %s\n   %s\n", seed, o.Desc, v.Signature, v.Message)
			}
			sigs[v.Signature]++
		}
	}
	fmt.Printf("%d runs (%d nontrivial) in %v\n", n, nt, time.Since(t0))
	for s, c := range sigs {
		fmt.Printf("%6d %s\n", c, s)
	}
}
