package sim

import (
	"encoding/json"
	"fmt"
	"io"
	"log"
	"os"
	"testing"
)

// TestWorker is the entry point the driver uses: VERIF_JOB names a JSON job file.
func TestWorker(t *testing.T) {
	jf := os.Getenv("VERIF_JOB")
	if jf == "" {
		t.Skip("VERIF_JOB not set")
	}
	for _, v := range []string{"YAEGI_FAST_CHAN", "YAEGI_NO_RUN", "YAEGI_AST_DOT", "YAEGI_CFG_DOT", "YAEGI_SPECIAL_STDIO"} {
		os.Unsetenv(v)
	}
	b, err := os.ReadFile(jf)
	if err != nil {
		fmt.Println("worker: ", err)
		os.Exit(2)
	}
	var job Job
	if err := json.Unmarshal(b, &job); err != nil {
		fmt.Println("worker: ", err)
		os.Exit(2)
	}
	job.Race = RaceBuild
	log.SetOutput(io.Discard) // log.Fatal, turned into log.Panic by the restricted stdlib, also prints
	res := RunWorker(t, &job)
	out, _ := json.Marshal(res)
	if err := os.WriteFile(job.Out, out, 0o644); err != nil {
		fmt.Println("worker: ", err)
		os.Exit(2)
	}
}
