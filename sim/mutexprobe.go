package sim

import (
	"sync"
	"unsafe"
)

// mutexBusy tells, without any synchronisation event or instrumented memory
// access, whether a lock attempt would fail right now. It is only called by the
// scheduler at a quiescent point (nobody else runs). The layout of sync.Mutex
// and sync.RWMutex of the pinned toolchain is checked once by probeSelfTest; if
// it does not hold, TryLock/Unlock probing is used instead.

type mutexLayout struct {
	state int32
	sema  uint32
}

type rwLayout struct {
	w           mutexLayout
	writerSem   uint32
	readerSem   uint32
	readerCount int32
	readerWait  int32
}

var probeOK = probeSelfTest()

func probeSelfTest() bool {
	if unsafe.Sizeof(sync.Mutex{}) != unsafe.Sizeof(mutexLayout{}) || unsafe.Sizeof(sync.RWMutex{}) != unsafe.Sizeof(rwLayout{}) {
		return false
	}
	var m sync.Mutex
	if rawMutexBusy(&m) {
		return false
	}
	m.Lock()
	if !rawMutexBusy(&m) {
		return false
	}
	m.Unlock()
	if rawMutexBusy(&m) {
		return false
	}
	var rw sync.RWMutex
	if rawRWBusy(&rw, true) || rawRWBusy(&rw, false) {
		return false
	}
	rw.RLock()
	if !rawRWBusy(&rw, true) || rawRWBusy(&rw, false) {
		return false
	}
	rw.RUnlock()
	rw.Lock()
	if !rawRWBusy(&rw, true) || !rawRWBusy(&rw, false) {
		return false
	}
	rw.Unlock()
	return !rawRWBusy(&rw, true) && !rawRWBusy(&rw, false)
}

//go:norace
func rawMutexBusy(m *sync.Mutex) bool {
	return (*mutexLayout)(unsafe.Pointer(m)).state&1 != 0
}

//go:norace
func rawRWBusy(m *sync.RWMutex, write bool) bool {
	l := (*rwLayout)(unsafe.Pointer(m))
	if write {
		return l.w.state&1 != 0 || l.readerCount != 0
	}
	return l.readerCount < 0
}

//go:norace
func mutexBusy(mu any, write bool) bool {
	if !probeOK {
		if !tryLock(mu, write) {
			return true
		}
		unlock(mu, write)
		return false
	}
	switch m := mu.(type) {
	case *sync.Mutex:
		return rawMutexBusy(m)
	case **sync.Mutex:
		return rawMutexBusy(*m)
	case *sync.RWMutex:
		return rawRWBusy(m, write)
	case **sync.RWMutex:
		return rawRWBusy(*m, write)
	}
	return false
}
