package sim

import (
	"fmt"
	"reflect"
	"runtime"
	"strings"
	"sync"
	"sync/atomic"
	"testing"
	"testing/synctest"

	"verif/sim/host"
)

// CoopMutex is what scripts see as sync.Mutex under the simulator: the real
// mutex, acquired with TryLock + cooperative yield (DESIGN 3.5). Unlocking an
// unlocked mutex is a fatal error of the Go runtime that would kill the worker
// process; it is turned into an ordinary panic of the task, reported as such.
type CoopMutex struct {
	mu     sync.Mutex
	locked atomic.Int32
}

func (m *CoopMutex) Lock() { CoopLock(&m.mu, true); m.locked.Store(1) }
func (m *CoopMutex) Unlock() {
	if !m.locked.CompareAndSwap(1, 0) {
		panic("sync: unlock of unlocked mutex (script-level sync.Mutex)")
	}
	m.mu.Unlock()
}
func (m *CoopMutex) TryLock() bool {
	if m.mu.TryLock() {
		m.locked.Store(1)
		return true
	}
	return false
}

// CoopRWMutex is the script-visible sync.RWMutex.
type CoopRWMutex struct {
	mu      sync.RWMutex
	w       atomic.Int32
	readers atomic.Int32
}

func (m *CoopRWMutex) Lock() { CoopLock(&m.mu, true); m.w.Store(1) }
func (m *CoopRWMutex) Unlock() {
	if !m.w.CompareAndSwap(1, 0) {
		panic("sync: Unlock of unlocked RWMutex (script-level sync.RWMutex)")
	}
	m.mu.Unlock()
}
func (m *CoopRWMutex) RLock() { CoopLock(&m.mu, false); m.readers.Add(1) }
func (m *CoopRWMutex) RUnlock() {
	if m.readers.Add(-1) < 0 {
		m.readers.Add(1)
		panic("sync: RUnlock of unlocked RWMutex (script-level sync.RWMutex)")
	}
	m.mu.RUnlock()
}
func (m *CoopRWMutex) TryLock() bool {
	if m.mu.TryLock() {
		m.w.Store(1)
		return true
	}
	return false
}
func (m *CoopRWMutex) TryRLock() bool {
	if m.mu.TryRLock() {
		m.readers.Add(1)
		return true
	}
	return false
}

// CoopOnce is the script-visible sync.Once: the real one holds a runtime mutex
// while the function runs, on which a second caller would block non-durably.
type CoopOnce struct {
	done atomic.Uint32
	m    CoopMutex
}

func (o *CoopOnce) Do(f func()) {
	if o.done.Load() == 0 {
		o.m.Lock()
		defer o.m.Unlock()
		if o.done.Load() == 0 {
			defer o.done.Store(1)
			f()
		}
	}
}

// SyncOverride is passed to Use after stdlib.Symbols.
var SyncOverride = map[string]map[string]reflect.Value{
	"sync/sync": {
		"Mutex":   reflect.ValueOf((*CoopMutex)(nil)),
		"RWMutex": reflect.ValueOf((*CoopRWMutex)(nil)),
		"Once":    reflect.ValueOf((*CoopOnce)(nil)),
	},
}

// stamp is installed as Sink.Stamp for simulated executions.
//
//go:norace
func (r *Run) stamp(e *host.Event) {
	raceDisable()
	if t := r.lookup(getg()); t != nil {
		e.Task = t.idx
		if r.Returned.Load() {
			e.Post = true
			t.HostPostFault++
		}
	}
	e.Seq = r.totalOps.Load()
	raceEnable()
}

// NewSink returns a sink whose events are stamped by this run.
func (r *Run) NewSink(capacity int, params []int) *host.Sink {
	s := host.NewSink(capacity, params)
	s.Stamp = r.stamp
	return s
}

// SimResult is what Simulate reports besides what body recorded itself.
type SimResult struct {
	Run        *Run
	Left       []string // tasks not exited when the scheduler loop ended
	BubbleErr  string   // panic raised by synctest.Test (deadlock at end of bubble ...)
	HarnessErr string   // panic of harness code inside the bubble
}

// Simulate executes one run in a fresh bubble. body is called on the bubble's
// main goroutine: it creates the interpreter(s) and spawns the client tasks; then
// the scheduler loop runs; then post (if not nil) may inspect the run, spawn more
// tasks and call r.Loop() again; finally everything left is torn down.
func Simulate(t *testing.T, tape *Tape, cfg RunCfg, body func(r *Run), post func(r *Run)) (res SimResult) {
	InstallHooks()
	defer func() {
		cur.Store(nil)
		host.Cur.Store(nil)
		if p := recover(); p != nil {
			res.BubbleErr = fmt.Sprint(p)
		}
	}()
	// synctest.Test ends the calling goroutine (runtime.Goexit) when the inner
	// test is marked failed, which the race detector does on any report: run it
	// on a goroutine of its own so that the worker's loop survives.
	fin := make(chan struct{})
	go func() {
		defer close(fin)
		defer func() {
			if p := recover(); p != nil {
				res.BubbleErr = fmt.Sprint(p)
			}
		}()
		simulateInBubble(t, tape, cfg, body, post, &res)
	}()
	<-fin
	if res.Run != nil {
		res.Run.JoinEdge()
	}
	return res
}

func simulateInBubble(t *testing.T, tape *Tape, cfg RunCfg, body func(r *Run), post func(r *Run), res *SimResult) {
	synctest.Test(t, func(t *testing.T) {
		r := NewRun(tape, cfg)
		res.Run = r
		cur.Store(r)
		func() {
			defer func() {
				if p := recover(); p != nil {
					buf := make([]byte, 8192)
					buf = buf[:runtime.Stack(buf, false)]
					res.HarnessErr = fmt.Sprintf("%v\n%s", p, buf)
				}
			}()
			body(r)
			r.Loop()
			if post != nil {
				post(r)
			}
		}()
		res.Left = r.Teardown()
	})
}

// IsEndOfBubbleDeadlock tells the bubble's "blocked goroutines remain" report
// from other panics.
func IsEndOfBubbleDeadlock(s string) bool {
	return strings.Contains(s, "deadlock")
}
