package sim

import (
	"testing/fstest"
	"context"
	"errors"
	"fmt"
	"reflect"
	"strings"
	"testing"

	"github.com/traefik/yaegi/interp"
	"verif/sim/host"
	"verif/sim/wl/dfr"
)

// C06: panics, defers and recover follow Go semantics and never escape Eval
// (DESIGN 4, C06). A case is a batch of fault plans executed one after the other
// on ONE interpreter (crash-and-continue), each compared with the native
// execution of the same engine source.

const (
	c06PlanLen  = 28
	c06MaxBatch = 10
)

var c06EntryName = [...]string{"Eval(dfr.Run())", "exported dfr.Run", "Eval(dfr.RunRaw())", "EvalWithContext(dfr.RunRaw())", "Compile+Execute(dfr.RunRaw())", "Eval(var v = dfr.RunRaw())", "Eval(import of a source package whose init calls dfr.RunRaw())", "EvalPath(directory of a main package calling dfr.RunRaw())", "Eval(import of a source package whose variable initialiser calls dfr.RunRaw())"}

type c06Native struct {
	ev  map[int][]string
	top string // classification seen by the top-level recover
}

// nativeC06 runs the natively compiled engine on a plan.
func nativeC06(plan []int) (res c06Native, ok bool) {
	sink := host.NewSink(2048, plan)
	host.Cur.Store(sink)
	func() {
		defer func() {
			if p := recover(); p != nil {
				ok = false
			}
		}()
		ok = true
		dfr.Run()
	}()
	host.Cur.Store(nil)
	if !ok || sink.Overflow() {
		return res, false
	}
	res.ev = strEvents(sink.Events())
	for _, s := range res.ev[0] {
		if strings.HasPrefix(s, "top ") {
			res.top = strings.TrimPrefix(s, "top ")
		}
	}
	return res, true
}

func strEvents(evs []host.Event) map[int][]string {
	out := map[int][]string{}
	for _, e := range evs {
		if e.Kind == host.KStr {
			out[e.Tag] = append(out[e.Tag], e.Str)
		}
	}
	return out
}

func planSpawns(ev map[int][]string) bool { return len(ev) > 1 }

// normalise maps the class of a recovered run-time fault to RTFAULT on the
// interpreted side too: the text of a fault is not compared (DESIGN C06).
func normFault(s string, native string) string {
	// s and native are event strings; if the native one reports RTFAULT at the
	// same position, any non-nil class that is not one of the engine's explicit
	// panic payloads is accepted.
	ni := strings.LastIndex(native, "RTFAULT")
	if ni < 0 || !strings.HasSuffix(native, "RTFAULT") {
		return s
	}
	prefix := native[:ni]
	if !strings.HasPrefix(s, prefix) {
		return s
	}
	cls := s[len(prefix):]
	if cls == "nil" || isExplicitClass(cls) {
		return s
	}
	return native
}

func isExplicitClass(c string) bool {
	for _, p := range []string{"s:boom", "s:again", "s:late", "s:dpanic", "s:hostboom", "s:os.Exit", "e:err", "i:", "E:", "pt:", "hpt:"} {
		if strings.HasPrefix(c, p) {
			return true
		}
	}
	return false
}

func diffEvents(got, want map[int][]string) string {
	for tag, w := range want {
		g := got[tag]
		for i := 0; i < len(w) || i < len(g); i++ {
			var a, b string
			if i < len(g) {
				a = g[i]
			}
			if i < len(w) {
				b = w[i]
			}
			if normFault(a, b) != b {
				return fmt.Sprintf("goroutine tag %d, event %d: interpreted %q, compiled %q (interpreted %v | compiled %v)", tag, i, a, b, tail5(g, i), tail5(w, i))
			}
		}
	}
	for tag := range got {
		if _, ok := want[tag]; !ok {
			return fmt.Sprintf("interpreted run has events under goroutine tag %d, compiled run has none: %v", tag, got[tag])
		}
	}
	return ""
}

// splitProbes separates the events of probe constructs from the others.
func splitProbes(ev map[int][]string) (probes, rest map[int][]string) {
	probes, rest = map[int][]string{}, map[int][]string{}
	for tag, l := range ev {
		for _, s := range l {
			if strings.HasPrefix(s, "d-cap ") || strings.HasPrefix(s, "probe-alias ") || strings.HasPrefix(s, "d-closure-recover ") {
				probes[tag] = append(probes[tag], s)
			} else {
				rest[tag] = append(rest[tag], s)
			}
		}
		if _, ok := rest[tag]; !ok {
			rest[tag] = nil
		}
	}
	return probes, rest
}

func tail5(s []string, i int) []string {
	lo := i - 3
	if lo < 0 {
		lo = 0
	}
	hi := i + 2
	if hi > len(s) {
		hi = len(s)
	}
	return s[lo:hi]
}

// diffKind names the first diverging event kind for the signature.
func diffKind(got, want map[int][]string) string {
	for tag, w := range want {
		g := got[tag]
		for i := 0; i < len(w) || i < len(g); i++ {
			var a, b string
			if i < len(g) {
				a = g[i]
			}
			if i < len(w) {
				b = w[i]
			}
			if normFault(a, b) != b {
				wa, wb := firstWord(a), firstWord(b)
				// what about the class of a recovered value
				if wa == wb && (wa == "d-recover" || wa == "d-recover-twice" || wa == "d-recover-named" || wa == "d-indirect-recover" || wa == "d-indirect-net" || wa == "top" || wa == "g-top" || wa == "deep-recover") {
					return wa + " class " + classKind(lastWord(a)) + " want " + classKind(lastWord(b))
				}
				return "got " + wa + " want " + wb
			}
		}
	}
	return "extra-goroutine-events"
}

func firstWord(s string) string {
	if s == "" {
		return "<end>"
	}
	if i := strings.IndexByte(s, ' '); i > 0 {
		return s[:i]
	}
	return s
}

func lastWord(s string) string {
	if i := strings.LastIndexByte(s, ' '); i >= 0 {
		return s[i+1:]
	}
	return s
}

func classKind(c string) string {
	if i := strings.IndexByte(c, ':'); i > 0 {
		return c[:i]
	}
	return c
}

// hostClassify classifies a panic value on the host side (basic and host types).
func hostClassify(v any) string {
	switch x := v.(type) {
	case nil:
		return "nil"
	case string:
		return "s:" + x
	case int:
		return fmt.Sprintf("i:%d", x)
	case host.Pt:
		return fmt.Sprintf("hpt:%d,%d", x.X, x.Y)
	case error:
		var re interface{ RuntimeError() }
		if errors.As(x, &re) {
			return "RTFAULT"
		}
		return "e:" + x.Error()
	case reflect.Value:
		return "reflect.Value(" + fmt.Sprint(x) + ")"
	}
	return fmt.Sprintf("other(%T)", v)
}

// RunC06 executes one batch.
func RunC06(t *testing.T, tape *Tape) *Outcome {
	o := &Outcome{Detail: map[string]any{}, FaultFired: map[string]int{}}
	nplans := 1 + tape.Choose(c06MaxBatch)
	type planT struct {
		entry int
		plan  []int
	}
	plans := make([]planT, nplans)
	for i := range plans {
		plans[i].entry = tape.Choose(len(c06EntryName))
		plans[i].plan = make([]int, c06PlanLen)
		for j := range plans[i].plan {
			plans[i].plan[j] = tape.Choose(64)
		}
	}
	o.Desc = fmt.Sprintf("batch of %d fault plans on one interpreter", nplans)
	var descs []string

	// (source packages of the import-init and EvalPath entries are added to the
	// in-memory file system plan by plan)
	fsys := fstest.MapFS{"_pkg/src/dfr/dfr.go": &fstest.MapFile{Data: []byte(dfr.Src)}}
	it := NewInterpFS(fsys)
	if _, err := it.Eval(dfr.Src); err != nil {
		o.Inconclusive = "engine source rejected: " + err.Error()
		return o
	}
	var runFn func()
	if v, err := it.Eval("dfr.Run"); err == nil {
		runFn, _ = v.Interface().(func())
	}
	if runFn == nil {
		o.Inconclusive = "cannot obtain exported dfr.Run"
		return o
	}
	faults := 0
	h := uint64(14695981039346656037)
	for pi, p := range plans {
		nat, ok := nativeC06(p.plan)
		if !ok {
			o.Inconclusive = "native run of the engine failed"
			return o
		}
		spawns := planSpawns(nat.ev)
		desc := fmt.Sprintf("plan %d via %s: plan=%v native top=%s spawns=%v", pi, c06EntryName[p.entry], p.plan, nat.top, spawns)
		descs = append(descs, desc)
		for _, s := range nat.ev[0] {
			if strings.HasPrefix(s, "fault ") {
				faults++
				o.FaultFired["injected-"+faultName(s)]++
			}
			if strings.HasPrefix(s, "d-recover") && !strings.HasSuffix(s, " nil") {
				o.FaultFired["recovered-directly"]++
			}
			if strings.HasPrefix(s, "deep-recover") {
				o.FaultFired["nested-recover-attempt"]++
			}
		}
		if nat.top != "nil" && nat.top != "" {
			o.FaultFired["uncaught-at-top"]++
		}
		for _, v := range p.plan {
			h = (h ^ uint64(v+1)) * 1099511628211
		}
		h = (h ^ uint64(p.entry+77)) * 1099511628211

		sink := host.NewSink(2048, p.plan)
		sink.Interp = true
		var evalErr error
		var evalRes reflect.Value
		var hostPanic any
		run := func() {
			defer func() {
				if r := recover(); r != nil {
					hostPanic = r
				}
			}()
			switch p.entry {
			case 0:
				evalRes, evalErr = it.Eval("dfr.Run()")
			case 1:
				runFn()
			case 2:
				evalRes, evalErr = it.Eval("dfr.RunRaw()")
			case 3:
				evalRes, evalErr = it.EvalWithContext(context.Background(), "dfr.RunRaw()")
			case 4:
				var prog *interp.Program
				prog, evalErr = it.Compile("dfr.RunRaw()")
				if evalErr == nil {
					evalRes, evalErr = it.Execute(prog)
				}
			case 5:
				// the panic unwinds through the initialisation of a package-level variable
				evalRes, evalErr = it.Eval(fmt.Sprintf("var pv%d = dfr.RunRaw()", pi))
			case 6:
				// ... through the init function of a source package while the
				// evaluation that imports it is still being compiled
				name := fmt.Sprintf("dfri%d", pi)
				fsys["_pkg/src/"+name+"/"+name+".go"] = &fstest.MapFile{Data: []byte("package " + name + "\n\nimport \"dfr\"\n\nvar R int\n\nfunc init() { R = dfr.RunRaw() }\n")}
				evalRes, evalErr = it.Eval("import \"" + name + "\"")
			case 8:
				// ... through a package variable initialiser of the imported package
				name := fmt.Sprintf("dfrv%d", pi)
				fsys["_pkg/src/"+name+"/"+name+".go"] = &fstest.MapFile{Data: []byte("package " + name + "\n\nimport \"dfr\"\n\nvar R = dfr.RunRaw()\n\nfunc F() int { return R }\n")}
				evalRes, evalErr = it.Eval("import \"" + name + "\"")
			case 7:
				// ... through the main function of a package given as a directory
				name := fmt.Sprintf("dfrm%d", pi)
				fsys["_pkg/src/"+name+"/main.go"] = &fstest.MapFile{Data: []byte("package main\n\nimport \"dfr\"\n\nfunc main() { dfr.RunRaw() }\n")}
				evalRes, evalErr = it.EvalPath("./_pkg/src/" + name)
			}
		}
		if spawns {
			// multi-goroutine plan: under the scheduler
			res := Simulate(t, tape, SchedCfg(tape, false), func(r *Run) {
				sink.Stamp = r.stamp
				host.Cur.Store(sink)
				r.Spawn("c0", run)
			}, nil)
			o.Stats.Add(&res.Run.Stats)
			o.FaultFired["multi-goroutine-plans"]++
			if res.Run.Deadlock || res.Run.BudgetHit {
				o.addV("C06", "progress", "plan-stuck", "%s: the interpreted engine did not finish: %s", desc, res.Run.DeadlockInfo)
				break
			}
			for _, tk := range res.Run.Tasks() {
				if tk.Panic != nil {
					o.addV("C06", "no-escape", "goroutine-panic-escaped", "%s: task %s died with %v", desc, tk.Name, tk.Panic)
				}
			}
			if res.HarnessErr != "" {
				o.Inconclusive = "harness panic: " + res.HarnessErr
				return o
			}
		} else {
			host.Cur.Store(sink)
			run()
			host.Cur.Store(nil)
		}
		if hostPanic != nil {
			if _, isAbort := hostPanic.(abortSentinel); !isAbort {
				o.addV("C06", "no-escape", "panic-escaped-to-host via="+entryClass(p.entry), "%s: a panic escaped into the calling host goroutine: %v", desc, hostPanic)
				break
			}
		}
		got := strEvents(sink.Events())
		want := nat.ev
		if p.entry >= 2 {
			// RunRaw has no top-level recover: the "top" event is replaced by the
			// error returned by Eval; "result" only appears without a panic.
			want = map[int][]string{}
			for k, v := range nat.ev {
				for _, s := range v {
					if k == 0 && strings.HasPrefix(s, "top ") {
						continue
					}
					want[k] = append(want[k], s)
				}
			}
		}
		// probe events (constructs with a listed known finding) are compared on
		// their own, so that a probe mismatch does not hide anything else
		gotP, gotM := splitProbes(got)
		wantP, wantM := splitProbes(want)
		if d := diffEvents(gotP, wantP); d != "" {
			o.addV("C06", "events", "event-mismatch "+diffKind(gotP, wantP), "%s: %s", desc, d)
		}
		if d := diffEvents(gotM, wantM); d != "" {
			o.addV("C06", "events", "event-mismatch "+diffKind(gotM, wantM), "%s: %s", desc, d)
			break
		}
		if p.entry >= 2 {
			switch {
			case nat.top == "nil" || nat.top == "":
				if evalErr != nil {
					o.addV("C06", "uncaught", "unexpected-error via="+entryClass(p.entry), "%s: Eval returned %v although no panic is left uncaught", desc, evalErr)
				}
			default:
				var pe interp.Panic
				switch {
				case evalErr == nil:
					o.addV("C06", "uncaught", "uncaught-panic-not-returned via="+entryClass(p.entry), "%s: an uncaught panic (%s) was not returned as an error (result %v)", desc, nat.top, evalRes)
				case !errors.As(evalErr, &pe):
					o.addV("C06", "uncaught", "uncaught-panic-wrong-error-type via="+entryClass(p.entry), "%s: the error is %T (%v), not interp.Panic", desc, evalErr, evalErr)
				default:
					gotc := hostClassify(pe.Value)
					wantc := nat.top
					comparable := strings.HasPrefix(wantc, "s:") || strings.HasPrefix(wantc, "i:") || strings.HasPrefix(wantc, "e:") || strings.HasPrefix(wantc, "hpt:")
					if wantc == "RTFAULT" {
						if gotc == "nil" || isExplicitClass(gotc) {
							o.addV("C06", "uncaught", "uncaught-panic-value class=RTFAULT", "%s: interp.Panic.Value is %s for an uncaught run-time fault", desc, gotc)
						}
					} else if comparable && gotc != wantc {
						o.addV("C06", "uncaught", "uncaught-panic-value class="+classKind(wantc)+" got="+classKind(gotc), "%s: interp.Panic.Value is %s, the original panic value is %s", desc, gotc, wantc)
					}
				}
			}
		}
		if hasNonProbe(o) {
			break
		}
	}
	o.Detail["plans"] = descs
	o.Tape = append([]int(nil), tape.Drawn...)
	o.TraceHash = h
	o.NonTrivial = faults > 0
	o.N = int64(nplans)
	return o
}

func hasNonProbe(o *Outcome) bool {
	for _, v := range o.Violations {
		if !strings.Contains(v.Signature, "d-cap") && !strings.Contains(v.Signature, "probe-alias") && !strings.Contains(v.Signature, "d-closure-recover") {
			return true
		}
	}
	return false
}

func entryClass(e int) string {
	return [...]string{"eval", "exported", "eval", "eval-ctx", "execute", "eval-var-init", "eval-import-init", "evalpath-dir", "eval-import-var-init"}[e]
}

func faultName(ev string) string {
	// "fault <id> kind=<k>"
	i := strings.Index(ev, "kind=")
	if i < 0 {
		return "?"
	}
	names := [...]string{"panic-string", "panic-error", "panic-int", "panic-struct", "panic-interpreted-error", "nil-deref", "index-out-of-range",
		"slice-out-of-range", "div-by-zero", "nil-map-write", "failed-type-assertion", "close-of-closed-channel", "host-function-panic", "panic-host-struct",
		"panic-in-sort-callback", "panic-in-strings-map-callback", "os-exit-restricted", "log-fatal-restricted",
		"fault-in-if-condition", "fault-in-for-condition", "fault-in-composite-literal-operand", "fault-in-assignment-lhs", "fault-in-call-argument", "fault-in-return-operand", "fault-in-switch-tag"}
	var k int
	fmt.Sscanf(ev[i:], "kind=%d", &k)
	if k >= 0 && k < len(names) {
		return names[k]
	}
	return "?"
}

// ---- complete enumeration of small trees --------------------------------
//
// The plan space of small call trees is enumerated completely (the
// fault_enumeration part of C06): level A = one activation with up to two
// deferred calls (27 defer variants: 22 plain forms + the recovering literal in
// its 5 modes) and each of 51 bodies (return; each of 25 faults; result set then
// each of 25 faults); level B = the same root calling one child that has up to
// one deferred call and one of the 51 bodies. Entry point = index mod 5.

var c06DeferVariants = func() [][]int {
	var v [][]int
	for k := 0; k < 23; k++ {
		if k == 5 {
			for m := 0; m < 5; m++ {
				v = append(v, []int{5, m})
			}
			continue
		}
		v = append(v, []int{k})
	}
	return v
}()

var c06Bodies = func() [][]int {
	b := [][]int{{0}}
	for k := 0; k < 25; k++ {
		b = append(b, []int{3, k})
	}
	for k := 0; k < 25; k++ {
		b = append(b, []int{7, 1, k})
	}
	return b
}()

// deferSeq decodes the i-th sequence of at most max deferred calls.
func c06DeferSeq(i, max int) ([]int, int) {
	nv := len(c06DeferVariants)
	count := 1
	for nd := 0; nd <= max; nd++ {
		if i < count {
			out := []int{nd}
			for j := 0; j < nd; j++ {
				out = append(out, c06DeferVariants[i%nv]...)
				i /= nv
			}
			return out, 0
		}
		i -= count
		count *= nv
	}
	return nil, i
}

func c06SeqCount(max int) int {
	n, c := 0, 1
	for nd := 0; nd <= max; nd++ {
		n += c
		c *= len(c06DeferVariants)
	}
	return n
}

// C06EnumCount returns the size of enumeration levels A and A+B.
func C06EnumCount() (a, ab int) {
	a = c06SeqCount(2) * len(c06Bodies)
	ab = a + c06SeqCount(2)*c06SeqCount(1)*len(c06Bodies)
	return
}

// c06EnumPlan returns the idx-th enumerated plan.
func c06EnumPlan(idx int) []int {
	a, _ := C06EnumCount()
	nb := len(c06Bodies)
	if idx < a {
		seq, _ := c06DeferSeq(idx/nb, 2)
		return append(seq, c06Bodies[idx%nb]...)
	}
	idx -= a
	body := c06Bodies[idx%nb]
	idx /= nb
	child, _ := c06DeferSeq(idx%c06SeqCount(1), 1)
	idx /= c06SeqCount(1)
	root, _ := c06DeferSeq(idx, 2)
	plan := append(root, 1) // body action 1: call one child
	plan = append(plan, child...)
	return append(plan, body...)
}

func init() {
	Props["C06"] = &PropDef{ID: "C06", Run: RunC06, Extra: func(job *Job) map[string]any {
		a, ab := C06EnumCount()
		n := ab
		if job.Tier == "quick" {
			n = a
		}
		return map[string]any{"enumerated_subspace": fmt.Sprintf("case indices 0..%d are the complete enumeration of small call trees (level A: one activation, <=2 deferred calls x 51 bodies = %d plans; level A+B adds one child with <=1 deferred call = %d plans); this tier enumerates %d; the enumeration is complete iff fault_kinds_fired[enumerated-plans] equals that number", n-1, a, ab, n)}
	}, Case: func(t *testing.T, c *CaseCtx, idx int) {
		a, ab := C06EnumCount()
		n := ab
		if c.Quick {
			n = a
		}
		if idx < n {
			// tape = [nplans-1, entry, plan values...]; the rest of the plan is 0
			tape := append([]int{0, idx % len(c06EntryName)}, c06EnumPlan(idx)...)
			o := RunC06(t, ReplayTape(tape))
			o.FaultFired["enumerated-plans"]++
			c.Emit(o)
			return
		}
		c.Emit(RunC06(t, NewTape(Mix(c.Job.Seed, uint64(idx), 6))))
	}}
}
