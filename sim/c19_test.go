package sim

import (
	"os"
	"strings"
	"fmt"
	"testing"
	"time"
)

func TestC19Dev(t *testing.T) {
	t0 := time.Now()
	sigs := map[string]int{}
	n := 400
	nt := 0
	for seed := uint64(0); seed < uint64(n); seed++ {
		o := RunC19(t, NewTape(Mix(1, seed, 19)))
		if o.Inconclusive != "" {
			fmt.Printf("seed %d INCONCLUSIVE %s :: %s\n", seed, o.Inconclusive, o.Desc)
			continue
		}
		if o.NonTrivial {
			nt++
		}
		for _, v := range o.Violations {
			if sigs[v.Signature] == 0 {
				fmt.Printf("seed %d\n   %s\n   %s\n", seed, v.Signature, v.Message)
			}
			sigs[v.Signature]++
		}
	}
	fmt.Printf("%d runs (%d nontrivial) in %v\n", n, nt, time.Since(t0))
	for s, c := range sigs {
		fmt.Printf("%6d %s\n", c, s)
	}
}

func TestC19One(t *testing.T) {
	var seed uint64
	fmt.Sscan(os.Getenv("SEED"), &seed)
	o := RunC19(t, NewTape(Mix(1, seed, 19)))
	fmt.Println(o.Desc)
	for _, v := range o.Violations {
		fmt.Println(v.Signature, "::", v.Message)
	}
	src, _ := o.Detail["program"].(string)
	for i, l := range strings.Split(src, "\n") {
		fmt.Printf("%3d %s\n", i+1, l)
	}
}
