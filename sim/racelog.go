package sim

import (
	"os"
	"path/filepath"
	"sort"
	"strings"
)

// Race oracle (DESIGN 3.4): the detector writes its reports to
// GORACE=log_path=<p>; after every run the worker reads what was appended.

type raceReport struct {
	Text     string
	Funcs    [2]string // innermost attributable frame of the two accesses
	Yaegi    bool      // at least one access is in github.com/traefik/yaegi
	Harness  bool      // both accesses are in the harness
}

var (
	raceLogPath string
	raceLogOff  int64
)

func raceLogFile() string {
	if raceLogPath != "" {
		return raceLogPath
	}
	g := os.Getenv("GORACE")
	for _, f := range strings.Fields(g) {
		if strings.HasPrefix(f, "log_path=") {
			base := strings.TrimPrefix(f, "log_path=")
			m, _ := filepath.Glob(base + ".*")
			sort.Strings(m)
			if len(m) > 0 {
				raceLogPath = m[len(m)-1]
			}
			return raceLogPath
		}
	}
	return ""
}

// newRaceReports returns the reports appended since the last call.
func newRaceReports() []raceReport {
	p := raceLogFile()
	if p == "" {
		return nil
	}
	f, err := os.Open(p)
	if err != nil {
		return nil
	}
	defer f.Close()
	st, err := f.Stat()
	if err != nil || st.Size() <= raceLogOff {
		return nil
	}
	buf := make([]byte, st.Size()-raceLogOff)
	if _, err := f.ReadAt(buf, raceLogOff); err != nil {
		return nil
	}
	// only consume complete reports
	txt := string(buf)
	end := strings.LastIndex(txt, "==================\n")
	if end < 0 {
		return nil
	}
	txt = txt[:end+len("==================\n")]
	raceLogOff += int64(len(txt))
	var out []raceReport
	for _, blk := range strings.Split(txt, "WARNING: DATA RACE") {
		if !strings.Contains(blk, " by goroutine ") {
			continue
		}
		out = append(out, parseRace(blk))
	}
	return out
}

func parseRace(blk string) raceReport {
	r := raceReport{Text: "WARNING: DATA RACE" + blk}
	// sections start with "Write at", "Read at", "Previous write at", "Previous read at", "Atomic ..."
	lines := strings.Split(blk, "\n")
	sec := -1
	for i := 0; i < len(lines); i++ {
		l := lines[i]
		tl := strings.TrimSpace(l)
		if strings.Contains(tl, " at 0x") && strings.Contains(tl, " by ") && !strings.HasPrefix(tl, "Goroutine") {
			sec++
			continue
		}
		if strings.HasPrefix(tl, "Goroutine ") {
			sec = 99
			continue
		}
		if sec < 0 || sec > 1 || r.Funcs[sec] != "" {
			continue
		}
		// function line: "  pkg.func()" followed by "      file:line +0x..". The
		// frame a report is attributed to is the first one, from the access
		// outwards, that belongs to yaegi or to the harness: a race inside strconv
		// on arguments handed over by callBin is yaegi's.
		if strings.HasPrefix(l, "  ") && !strings.HasPrefix(l, "      ") && strings.HasSuffix(tl, ")") {
			fn := tl[:strings.LastIndex(tl, "(")]
			if strings.Contains(fn, "github.com/traefik/yaegi/") || strings.HasPrefix(fn, "verif/") {
				r.Funcs[sec] = fn
			}
		}
	}
	y0 := strings.Contains(r.Funcs[0], "github.com/traefik/yaegi/")
	y1 := strings.Contains(r.Funcs[1], "github.com/traefik/yaegi/")
	h0 := strings.HasPrefix(r.Funcs[0], "verif/")
	h1 := strings.HasPrefix(r.Funcs[1], "verif/")
	// a report involving the harness on either side is the harness's problem
	// (counted, must be zero); a report is attributed to yaegi only if an
	// access is in yaegi and none is in the harness.
	r.Harness = h0 || h1
	r.Yaegi = (y0 || y1) && !r.Harness
	return r
}

// raceSignature is robust to line shifts: the two function names, sorted.
func (r *raceReport) raceSignature() string {
	a, b := shortFn(r.Funcs[0]), shortFn(r.Funcs[1])
	if b < a {
		a, b = b, a
	}
	return "race fn=" + a + "|" + b
}

func shortFn(f string) string {
	f = strings.TrimPrefix(f, "github.com/traefik/yaegi/")
	return f
}
