package sim

import (
	"encoding/json"
	"fmt"
	"os"
	"testing"
)

func TestReplayDebug(t *testing.T) {
	f := os.Getenv("REPLAY")
	if f == "" {
		t.Skip()
	}
	b, _ := os.ReadFile(f)
	var rf ReplayFile
	json.Unmarshal(b, &rf)
	var steps []string
	if os.Getenv("VERIF_DEBUG") != "" {
		DebugSteps = &steps
	}
	o := Props[rf.Property].Run(t, ReplayTape(rf.Tape))
	DebugSteps = nil
	if n := len(steps); n > 0 {
		from := n - 40
		if os.Getenv("VERIF_DEBUG") == "all" {
			from = 0
		}
		if from < 0 {
			from = 0
		}
		for _, s := range steps[from:] {
			fmt.Println("OP", s)
		}
	}
	fmt.Println(o.Desc)
	for _, v := range o.Violations {
		fmt.Println("V:", v.Signature, v.Message)
	}
	fmt.Printf("stats %+v\n", o.Stats)
	fmt.Println(o.Detail["deadlock"], o.Detail["bubble"])
	fmt.Println(o.Detail["events"])
	fmt.Println(o.FaultFired)
	for _, s := range o.Schedule[len(o.Schedule)-8:] {
		fmt.Println(s)
	}
}
