package sim

import (
	"encoding/json"
	"fmt"
	"os"
	"testing"
)

func TestReplayDebug(t *testing.T) {
	f := os.Getenv("REPLAY")
	if f == "" {
		t.Skip()
	}
	b, _ := os.ReadFile(f)
	var rf ReplayFile
	json.Unmarshal(b, &rf)
	o := Props[rf.Property].Run(t, ReplayTape(rf.Tape))
	fmt.Println(o.Desc)
	for _, v := range o.Violations {
		fmt.Println("V:", v.Signature, v.Message)
	}
	fmt.Printf("stats %+v\n", o.Stats)
	fmt.Println(o.Detail["deadlock"], o.Detail["bubble"])
	fmt.Println(o.Detail["events"])
	fmt.Println(o.FaultFired)
	for _, s := range o.Schedule[len(o.Schedule)-8:] {
		fmt.Println(s)
	}
}
