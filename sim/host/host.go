// Package host is the side-effect surface of workloads: the same functions are
// linked into natively compiled workload packages and exported to interpreted
// ones through Interpreter.Use, so one source text runs both ways.
package host

import (
	"reflect"
	"sync/atomic"
)

// Event kinds.
const (
	KEmit = iota
	KTick
	KStr
)

// Event is one observable side effect.
type Event struct {
	Kind int
	Tag  int
	Val  int
	Str  string
	Task int   // filled by the simulator: task index, -1 natively
	Seq  int64 // filled by the simulator: global op count at the event
	Post bool  // after the fault fired
}

// Sink collects the events of one execution.
type Sink struct {
	Ev     []Event
	n      atomic.Int32
	Params []int
	// Interp is set for the interpreted execution (the native twin must not
	// really call os.Exit or log.Fatal).
	Interp bool
	// Stamp, if set, is called for every event before it is stored (the
	// simulator stamps task and sequence number, and may park the caller).
	Stamp func(e *Event)
	// Route, if set, selects the sink of the calling task (several workload
	// instances in one run).
	Route func() *Sink
}

// NewSink allocates a sink with a fixed capacity.
func NewSink(capacity int, params []int) *Sink {
	return &Sink{Ev: make([]Event, capacity), Params: params}
}

// Events returns the recorded events.
//
//go:norace
func (s *Sink) Events() []Event {
	n := int(s.n.Load())
	if n > len(s.Ev) {
		n = len(s.Ev)
	}
	return s.Ev[:n]
}

// Overflow reports whether more events were produced than fit.
func (s *Sink) Overflow() bool { return int(s.n.Load()) > len(s.Ev) }

// Cur is the sink of the execution in progress.
var Cur atomic.Pointer[Sink]

//go:norace
func put(e Event) {
	s := Cur.Load()
	if s == nil {
		return
	}
	if s.Route != nil {
		if rs := s.Route(); rs != nil {
			s = rs
		}
	}
	e.Task = -1
	if s.Stamp != nil {
		s.Stamp(&e)
	}
	i := int(s.n.Add(1)) - 1
	if i < len(s.Ev) {
		s.Ev[i] = e
	}
}

// Emit records an integer under a tag.
//
//go:norace
func Emit(tag, v int) { put(Event{Kind: KEmit, Tag: tag, Val: v}) }

// EmitS records a string under a tag.
//
//go:norace
func EmitS(tag int, s string) { put(Event{Kind: KStr, Tag: tag, Str: s}) }

// Tick is the side-effect counter of the cancellation workloads.
//
//go:norace
func Tick(id int) { put(Event{Kind: KTick, Tag: id}) }

// TickR is Tick with a result, usable in expressions and initialisers.
//
//go:norace
func TickR(id int) int { put(Event{Kind: KTick, Tag: id}); return id }

// Interpreted reports whether the caller runs under the interpreter.
//
//go:norace
func Interpreted() bool {
	s := Cur.Load()
	return s != nil && s.Interp
}

// Twice is a host function with a result.
//
//go:norace
func Twice(x int) int { return 2 * x }

// Param returns the i-th parameter of the workload instance.
//
//go:norace
func Param(i int) int {
	s := Cur.Load()
	if s != nil && s.Route != nil {
		if rs := s.Route(); rs != nil {
			s = rs
		}
	}
	if s == nil || i < 0 || i >= len(s.Params) {
		return 0
	}
	return s.Params[i]
}

// NParams returns the number of parameters.
//
//go:norace
func NParams() int {
	s := Cur.Load()
	if s == nil {
		return 0
	}
	return len(s.Params)
}

// Pt is a host struct type used as a panic value.
type Pt struct{ X, Y int }

// Boom panics with the given value on the host side of the Use seam.
func Boom(v interface{}) { panic(v) }

// BoomStr panics with a host string.
func BoomStr(s string) { panic(s) }

// Park blocks its caller for ever in the host (a native call that never returns).
func Park() { select {} }

// Symbols is the export table given to Interpreter.Use.
var Symbols = map[string]map[string]reflect.Value{
	"verif/sim/host/host": {
		"Emit":    reflect.ValueOf(Emit),
		"EmitS":   reflect.ValueOf(EmitS),
		"Tick":    reflect.ValueOf(Tick),
		"TickR":   reflect.ValueOf(TickR),
		"Param":   reflect.ValueOf(Param),
		"Twice":   reflect.ValueOf(Twice),
		"Interpreted": reflect.ValueOf(Interpreted),
		"NParams": reflect.ValueOf(NParams),
		"Boom":    reflect.ValueOf(Boom),
		"BoomStr": reflect.ValueOf(BoomStr),
		"Park":    reflect.ValueOf(Park),
		"Pt":      reflect.ValueOf((*Pt)(nil)),
	},
}
