//go:build !race

package sim

// RaceBuild reports whether the binary is built with the race detector.
const RaceBuild = false

func raceDisable() {}
func raceEnable()  {}
