//go:build race

package sim

import "runtime"

// RaceBuild reports whether the binary is built with the race detector.
const RaceBuild = true

//go:norace
func raceDisable() { runtime.RaceDisable() }

//go:norace
func raceEnable() { runtime.RaceEnable() }
