package sim

import (
	"fmt"
	"strings"
)

// Program family of C09 (DESIGN 4, C09). A program is a tree of actors; every
// actor is a function started with `go` by its parent (actor 0 is called by
// main). Every side effect is host.Tick(id): id = actor number for ordinary
// ticks, 500+ for deferred host calls, 700+ for package initialisation, 900+ for
// "escaped from a blocking construct that can never complete".

const (
	bLoopTick = iota
	bCountLoop
	bRecursion
	bClosureLoop
	bMethodLoop
	bFuncValLoop
	bNestedCall
	bMakeClosure
	bSendBlock
	bRecvBlock
	bRecvCond
	bRecv2
	bRangeChan
	bSelectRecvSend
	bSelectDefault
	bSelectEmpty
	bPingPong
	bDeferLit
	bDeferHost
	bSendBuffered
	bSelectMany
	bSortCallback
	bMapCallback
	bRangeSlice
	bRecvAssign
	bRecvInLiteral
	bPanicRecover
	bGotoLoop
	bLabelLoops
	bRangeString
	bSwitchLoop
	bIfaceLoop
	bSelectSendOnly
	bNilChan
	bRecvExpr
	bChanChan
	bSelectWarm
	bSleepLoop
	bTimeAfter
	nBodies
)

var bodyName = [...]string{"loop-tick", "count-loop", "recursion", "closure-loop", "method-loop", "funcval-loop",
	"nested-call", "make-closure-loop", "send-block", "recv-block", "recv-cond", "recv2", "range-chan",
	"select-recv-send", "select-default-loop", "select-empty", "ping-pong", "defer-literal", "defer-host",
	"send-buffered-full", "select-many", "sort-callback", "strings-map-callback", "range-slice-loop", "recv-assign", "recv-in-literal", "panic-recover-loop",
	"goto-loop", "label-loops", "range-string-loop", "switch-loop", "iface-loop", "select-send-only", "nil-chan", "recv-expr", "chan-chan", "select-warm",
	"sleep-loop", "time-after-loop"}

// C09Prog is a generated program.
type C09Prog struct {
	Src    string
	Desc   string
	Bodies []int
	BodyOf map[int]int // actor id -> body kind
	Init   int // 0 none, 1 package var initialiser, 2 init function, 3 both
	Sleeps bool
	Root   int // actor called by main
	Warm   []int // actors with a select-warm body (sw<id>(true) executes their select once without blocking)
}

type c09Gen struct {
	b      strings.Builder
	decl   strings.Builder
	tape   *Tape
	n      int
	bodies []int
	bodyOf map[int]int
	desc   []string
	sleeps bool
	needStarter bool
	needSort    bool
	needStrings bool
	allowSleep bool
	warm       []int
	selectOnly bool // plain send/receive bodies are replaced by select-warm
}

func (g *c09Gen) pf(f string, a ...any) { fmt.Fprintf(&g.b, f, a...) }

// actor emits function actor<id> and returns id.
func (g *c09Gen) actor(depth int) int {
	id := g.n
	g.n++
	nkids := 0
	if depth < 2 && g.n < 6 {
		nkids = g.tape.Choose(3)
	}
	var kids []int
	for i := 0; i < nkids; i++ {
		kids = append(kids, g.actor(depth+1))
	}
	nb := nBodies
	if !g.allowSleep {
		nb = bSleepLoop
	}
	body := g.tape.Choose(nb)
	if g.selectOnly {
		switch body {
		case bSendBlock, bRecvBlock, bRecvCond, bRecv2, bPingPong, bSendBuffered, bRecvAssign, bRecvInLiteral, bNilChan, bRecvExpr, bChanChan:
			body = bSelectWarm
		}
	}
	g.bodies = append(g.bodies, body)
	g.bodyOf[id] = body
	g.desc = append(g.desc, fmt.Sprintf("a%d:%s", id, bodyName[body]))
	var s strings.Builder
	p := func(f string, a ...any) { fmt.Fprintf(&s, f, a...) }
	p("func actor%d() {\n\thost.Tick(%d)\n", id, id)
	// ping-pong needs a partner goroutine of its own
	for _, k := range kids {
		// every form of go statement the interpreter implements differently
		switch g.tape.Choose(5) {
		case 0:
			p("\tgo actor%d()\n", k)
		case 1:
			p("\tgo func() { actor%d() }()\n", k)
		case 2:
			g.needStarter = true
			p("\tgo (&starter{}).run(actor%d)\n", k)
		case 3:
			g.needStarter = true
			p("\tgo runFn(actor%d, %d)\n", k, k)
		case 4:
			p("\tfa%d := actor%d\n\tgo fa%d()\n", k, k, k)
		}
	}
	switch body {
	case bLoopTick:
		p("\tfor {\n\t\thost.Tick(%d)\n\t}\n", id)
	case bCountLoop:
		n := 2 + g.tape.Choose(6)
		p("\ts := 0\n\tfor i := 0; i < %d; i++ {\n\t\ts += i\n\t\thost.Tick(%d)\n\t}\n", n, id)
	case bRecursion:
		fmt.Fprintf(&g.decl, "func rec%d(n int) int {\n\thost.Tick(%d)\n\tif n < 0 {\n\t\treturn 0\n\t}\n\treturn rec%d(n+1) + 1\n}\n\n", id, id, id)
		p("\trec%d(0)\n", id)
	case bClosureLoop:
		p("\tk := %d\n\tf := func(x int) int { return x + k }\n\tfor i := 0; ; i++ {\n\t\thost.Tick(f(i)*0 + %d)\n\t}\n", 1+g.tape.Choose(5), id)
	case bMethodLoop:
		fmt.Fprintf(&g.decl, "type T%d struct{ n int }\n\nfunc (t *T%d) inc() int {\n\tt.n++\n\thost.Tick(%d)\n\treturn t.n\n}\n\n", id, id, id)
		p("\tt := &T%d{}\n\tfor {\n\t\tt.inc()\n\t}\n", id)
	case bFuncValLoop:
		fmt.Fprintf(&g.decl, "func fv%d(x int) int {\n\thost.Tick(%d)\n\treturn x + 1\n}\n\n", id, id)
		p("\tvar fv func(int) int = fv%d\n\tx := 0\n\tfor {\n\t\tx = fv(x)\n\t}\n", id)
	case bNestedCall:
		fmt.Fprintf(&g.decl, "func na%d(x int) int { return nb%d(x) + 1 }\nfunc nb%d(x int) int { return nc%d(x) + 1 }\nfunc nc%d(x int) int {\n\thost.Tick(%d)\n\treturn x\n}\n\n", id, id, id, id, id, id)
		p("\tfor i := 0; ; i++ {\n\t\tna%d(i)\n\t}\n", id)
	case bMakeClosure:
		p("\tvar fs []func() int\n\tfor i := 0; ; i++ {\n\t\tj := i\n\t\tfs = append(fs[:0], func() int { return j })\n\t\thost.Tick(fs[0]()*0 + %d)\n\t}\n", id)
	case bSendBlock:
		p("\tc := make(chan int)\n\tc <- 1\n\thost.Tick(%d)\n", 900+id)
	case bRecvBlock:
		p("\tc := make(chan int)\n\t<-c\n\thost.Tick(%d)\n", 900+id)
	case bRecvCond:
		p("\tc := make(chan bool)\n\tif <-c {\n\t\thost.Tick(%d)\n\t}\n\thost.Tick(%d)\n", 900+id, 900+id)
	case bRecv2:
		p("\tc := make(chan int)\n\tv, ok := <-c\n\tif ok || v == 0 {\n\t\thost.Tick(%d)\n\t}\n", 900+id)
	case bRangeChan:
		p("\tc := make(chan int)\n\tfor v := range c {\n\t\thost.Tick(%d + v*0)\n\t}\n\thost.Tick(%d)\n", 900+id, 900+id)
	case bSelectRecvSend:
		p("\tc1 := make(chan int)\n\tc2 := make(chan int)\n\tselect {\n\tcase v := <-c1:\n\t\thost.Tick(%d + v*0)\n\tcase c2 <- 1:\n\t\thost.Tick(%d)\n\t}\n\thost.Tick(%d)\n", 900+id, 900+id, 900+id)
	case bSelectDefault:
		p("\tc := make(chan int)\n\tfor {\n\t\tselect {\n\t\tcase <-c:\n\t\t\thost.Tick(%d)\n\t\tdefault:\n\t\t\thost.Tick(%d)\n\t\t}\n\t}\n", 900+id, id)
	case bSelectEmpty:
		p("\tselect {}\n")
	case bPingPong:
		fmt.Fprintf(&g.decl, "func pong%d(in, out chan int) {\n\tfor v := range in {\n\t\thost.Tick(%d)\n\t\tout <- v + 1\n\t}\n\thost.Tick(%d)\n}\n\n", id, id, 900+id)
		cp := g.tape.Choose(2)
		p("\tping := make(chan int, %d)\n\tpong := make(chan int, %d)\n\tgo pong%d(ping, pong)\n\tfor i := 0; ; i++ {\n\t\tping <- i\n\t\thost.Tick(%d)\n\t\t<-pong\n\t}\n", cp, cp, id, id)
	case bDeferLit:
		fmt.Fprintf(&g.decl, "func dl%d(x int) {\n\tdefer func() {\n\t\thost.Tick(%d)\n\t\thost.Tick(%d)\n\t}()\n\tfor {\n\t\thost.Tick(%d)\n\t\tx++\n\t}\n}\n\n", id, 500+id, 500+id, id)
		p("\tdl%d(0)\n", id)
	case bDeferHost:
		fmt.Fprintf(&g.decl, "func dh%d(x int) {\n\tdefer host.Tick(%d)\n\tdefer host.Tick(%d)\n\tfor {\n\t\thost.Tick(%d)\n\t\tx++\n\t}\n}\n\n", id, 500+id, 500+id, id)
		p("\tdh%d(0)\n", id)
	case bSendBuffered:
		p("\tc := make(chan int, 2)\n\tfor i := 0; ; i++ {\n\t\tc <- i\n\t\thost.Tick(%d)\n\t}\n", id)
	case bSelectMany:
		p("\tc1 := make(chan int)\n\tc2 := make(chan string)\n\tc3 := make(chan int, 1)\n\tfor i := 0; i < 3; i++ {\n\t\tselect {\n\t\tcase v, ok := <-c1:\n\t\t\tif ok {\n\t\t\t\thost.Tick(%d + v*0)\n\t\t\t}\n\t\tcase c2 <- \"x\":\n\t\t\thost.Tick(%d)\n\t\tcase c3 <- i:\n\t\t\thost.Tick(%d)\n\t\t}\n\t}\n\thost.Tick(%d)\n", 900+id, 900+id, id, 900+id)
	case bSortCallback:
		g.needSort = true
		p("\txs := []int{5, 3, 9, 1, 7, 2, 8}\n\tfor r := 0; ; r++ {\n\t\tsort.Slice(xs, func(i, j int) bool {\n\t\t\thost.Tick(%d)\n\t\t\tif r%%2 == 0 {\n\t\t\t\treturn xs[i] < xs[j]\n\t\t\t}\n\t\t\treturn xs[i] > xs[j]\n\t\t})\n\t}\n", id)
	case bMapCallback:
		g.needStrings = true
		p("\tfor {\n\t\t_ = strings.Map(func(c rune) rune {\n\t\t\thost.Tick(%d)\n\t\t\treturn c + 1\n\t\t}, \"abcdef\")\n\t}\n", id)
	case bRangeSlice:
		p("\tdata := []int{1, 2, 3, 4}\n\tm := map[int]int{1: 1, 2: 2}\n\tfor {\n\t\tfor i, v := range data {\n\t\t\thost.Tick(%d + i*0 + v*0)\n\t\t}\n\t\tfor k := range m {\n\t\t\thost.Tick(%d + k*0)\n\t\t}\n\t\tfor i := range 3 {\n\t\t\thost.Tick(%d + i*0)\n\t\t}\n\t}\n", id, id, id)
	case bRecvAssign:
		// the received value is assigned to an existing variable, a slice element
		// or a struct field (not declared by the statement)
		switch g.tape.Choose(3) {
		case 0:
			p("\tc := make(chan int)\n\tv := 1\n\tv = <-c\n\thost.Tick(%d + v*0)\n", 900+id)
		case 1:
			p("\tc := make(chan int)\n\ta := []int{1, 2}\n\ta[1] = <-c\n\thost.Tick(%d + a[1]*0)\n", 900+id)
		case 2:
			p("\tc := make(chan string)\n\tvar s struct{ f string }\n\ts.f = <-c\n\thost.Tick(%d + len(s.f)*0)\n", 900+id)
		}
	case bRecvInLiteral:
		// a blocking channel operation inside a function literal (whose code is
		// generated when the literal is compiled, not when the program is executed)
		switch g.tape.Choose(3) {
		case 0:
			p("\tc := make(chan int)\n\tv := 1\n\tf := func() { v = <-c }\n\tf()\n\thost.Tick(%d + v*0)\n", 900+id)
		case 1:
			p("\tc := make(chan int)\n\tf := func() int { return <-c + 1 }\n\thost.Tick(%d + f()*0)\n", 900+id)
		case 2:
			p("\tc := make(chan int)\n\tfunc() { c <- 1 }()\n\thost.Tick(%d)\n", 900+id)
		}
	case bPanicRecover:
		// every iteration raises a panic (explicit or a run-time fault) which a
		// deferred function of the callee, or of its caller, recovers: a cancellation
		// may arrive while the panic is in flight
		kind := g.tape.Choose(3)
		raise := "panic(\"p\")"
		if kind == 1 {
			raise = "var m map[int]int\n\tm[i] = 1"
		}
		if kind == 2 {
			fmt.Fprintf(&g.decl, "func pri%d(i int) {\n\thost.Tick(%d)\n\tpanic(i)\n}\n\nfunc pr%d(i int) (r int) {\n\tdefer func() {\n\t\tif e := recover(); e != nil {\n\t\t\tr = -1\n\t\t}\n\t}()\n\tpri%d(i)\n\treturn i\n}\n\n", id, id, id, id)
		} else {
			fmt.Fprintf(&g.decl, "func pr%d(i int) (r int) {\n\tdefer func() {\n\t\tif e := recover(); e != nil {\n\t\t\tr = -1\n\t\t}\n\t}()\n\thost.Tick(%d)\n\t%s\n\treturn i\n}\n\n", id, id, raise)
		}
		p("\tfor i := 0; ; i++ {\n\t\tpr%d(i)\n\t}\n", id)
	case bGotoLoop:
		// a loop made of a label and a goto (no for statement: the back edge is a jump)
		p("\ti := 0\nL%d:\n\thost.Tick(%d)\n\ti++\n\tif i > 0 {\n\t\tgoto L%d\n\t}\n", id, id, id)
	case bLabelLoops:
		p("outer%d:\n\tfor {\n\t\tfor j := 0; j < 4; j++ {\n\t\t\tif j == 2 {\n\t\t\t\tcontinue outer%d\n\t\t\t}\n\t\t\thost.Tick(%d)\n\t\t}\n\t}\n", id, id, id)
	case bRangeString:
		p("\tfor {\n\t\tfor i, r := range \"h\u00e9llo\" {\n\t\t\thost.Tick(%d + i*0 + int(r)*0)\n\t\t}\n\t}\n", id)
	case bSwitchLoop:
		p("\tfor i := 0; ; i++ {\n\t\tswitch i %% 3 {\n\t\tcase 0:\n\t\t\tfor j := 0; j < 2; j++ {\n\t\t\t\thost.Tick(%d)\n\t\t\t}\n\t\tcase 1:\n\t\t\thost.Tick(%d)\n\t\t\tfallthrough\n\t\tdefault:\n\t\t\thost.Tick(%d)\n\t\t}\n\t}\n", id, id, id)
	case bIfaceLoop:
		fmt.Fprintf(&g.decl, "type I%d interface{ step() int }\n\ntype S%d struct{ n int }\n\nfunc (s *S%d) step() int {\n\thost.Tick(%d)\n\ts.n++\n\treturn s.n\n}\n\n", id, id, id, id)
		p("\tvar it I%d = &S%d{}\n\tfor {\n\t\tit.step()\n\t}\n", id, id)
	case bSelectSendOnly:
		p("\tc1 := make(chan int)\n\tc2 := make(chan string)\n\tselect {\n\tcase c1 <- 1:\n\t\thost.Tick(%d)\n\tcase c2 <- \"x\":\n\t\thost.Tick(%d)\n\t}\n\thost.Tick(%d)\n", 900+id, 900+id, 900+id)
	case bNilChan:
		switch g.tape.Choose(3) {
		case 0:
			p("\tvar c chan int\n\t<-c\n\thost.Tick(%d)\n", 900+id)
		case 1:
			p("\tvar c chan int\n\tc <- 1\n\thost.Tick(%d)\n", 900+id)
		case 2:
			p("\tvar c chan int\n\tselect {\n\tcase v := <-c:\n\t\thost.Tick(%d + v*0)\n\tcase c <- 2:\n\t\thost.Tick(%d)\n\t}\n\thost.Tick(%d)\n", 900+id, 900+id, 900+id)
		}
	case bRecvExpr:
		// a blocking receive as an operand of a larger expression or statement
		switch g.tape.Choose(6) {
		case 0:
			p("\tc := make(chan int)\n\thost.Tick(%d + (<-c)*0)\n", 900+id)
		case 1:
			p("\tc := make(chan int)\n\ta := []int{0, 0}\n\thost.Tick(%d + a[<-c])\n", 900+id)
		case 2:
			p("\tc := make(chan int)\n\td := make(chan int)\n\tx := <-c + <-d\n\thost.Tick(%d + x*0)\n", 900+id)
		case 3:
			p("\tc := make(chan int)\n\tif v, ok := <-c; ok || v == 0 {\n\t\thost.Tick(%d)\n\t}\n", 900+id)
		case 4:
			p("\tc := make(chan int)\n\td := make(chan int, 1)\n\td <- <-c\n\thost.Tick(%d)\n", 900+id)
		case 5:
			fmt.Fprintf(&g.decl, "func val%d() int {\n\thost.Tick(%d)\n\treturn 1\n}\n\n", id, id)
			p("\tc := make(chan int)\n\tc <- val%d()\n\thost.Tick(%d)\n", id, 900+id)
		}
	case bChanChan:
		p("\tcc := make(chan chan int)\n\tc := <-cc\n\tc <- 1\n\thost.Tick(%d)\n", 900+id)
	case bSelectWarm:
		// a select statement which an earlier evaluation of the session may have
		// executed already, without blocking (sw<id>(true)); here it blocks
		fmt.Fprintf(&g.decl, "func sw%d(ready bool) {\n\tc1 := make(chan int, 1)\n\tvar c2 chan int\n\tif ready {\n\t\tc1 <- 1\n\t}\n\tselect {\n\tcase v := <-c1:\n\t\thost.Tick(960 + v*0)\n\tcase c2 <- 1:\n\t\thost.Tick(%d)\n\t}\n}\n\n", id, 900+id)
		g.warm = append(g.warm, id)
		p("\tsw%d(false)\n\thost.Tick(%d)\n", id, 900+id)
	case bTimeAfter:
		g.sleeps = true
		p("\tc := make(chan int)\n\tfor {\n\t\tselect {\n\t\tcase <-time.After(%d * time.Millisecond):\n\t\t\thost.Tick(%d)\n\t\tcase <-c:\n\t\t\thost.Tick(%d)\n\t\t}\n\t}\n", 1+g.tape.Choose(4), id, 900+id)
	case bSleepLoop:
		g.sleeps = true
		p("\tfor {\n\t\ttime.Sleep(%d * time.Millisecond)\n\t\thost.Tick(%d)\n\t}\n", 1+g.tape.Choose(4), id)
	}
	p("\thost.Tick(%d)\n}\n\n", 100+id)
	g.decl.WriteString(s.String())
	return id
}

// GenC09 draws a program from the tape.
func GenC09(tape *Tape, allowSleep bool) *C09Prog { return GenC09Imp(tape, allowSleep, false) }

// C09DepSrc is a source package imported by some programs (EvalPathWithContext
// only): its variable initialiser and init function execute operations while the
// importing program is still being compiled.
const C09DepSrc = `package dep

import "verif/sim/host"

func slow(n int) int {
	s := 0
	for i := 0; i < n; i++ {
		s += host.TickR(710)
	}
	return s
}

var V = slow(3)

func init() {
	for i := 0; i < 2; i++ {
		host.Tick(711)
	}
}

func F(x int) int {
	host.Tick(712)
	return x + V*0
}
`

// GenC09Imp is GenC09 with an optional source import.
func GenC09Imp(tape *Tape, allowSleep, withImport bool) *C09Prog {
	return GenC09Opt(tape, allowSleep, withImport, false)
}

// GenC09Opt: with selectOnly the program's blocking constructs are select
// statements and range loops only.
func GenC09Opt(tape *Tape, allowSleep, withImport, selectOnly bool) *C09Prog {
	g := &c09Gen{tape: tape, allowSleep: allowSleep, bodyOf: map[int]int{}, selectOnly: selectOnly}
	initKind := tape.Choose(4)
	root := g.actor(0)
	var src strings.Builder
	src.WriteString("package main\n\nimport (\n")
	if g.needSort {
		src.WriteString("\t\"sort\"\n")
	}
	if g.needStrings {
		src.WriteString("\t\"strings\"\n")
	}
	if g.sleeps {
		src.WriteString("\t\"time\"\n")
	}
	if withImport {
		src.WriteString("\t\"dep\"\n")
	}
	src.WriteString("\t\"verif/sim/host\"\n)\n\n")
	if initKind&1 != 0 {
		src.WriteString("func slowInit(n int) int {\n\ts := 0\n\tfor i := 0; i < n; i++ {\n\t\ts += host.TickR(700)\n\t}\n\treturn s\n}\n\nvar g0 = slowInit(4)\n\nvar g1 = g0 + slowInit(2)\n\n")
	}
	if initKind&2 != 0 {
		src.WriteString("func init() {\n\tfor i := 0; i < 3; i++ {\n\t\thost.Tick(701)\n\t}\n}\n\n")
	}
	if g.needStarter {
		src.WriteString("type starter struct{ n int }\n\nfunc (s *starter) run(f func()) {\n\ts.n++\n\tf()\n}\n\nfunc runFn(f func(), tag int) {\n\tif tag >= 0 {\n\t\tf()\n\t}\n}\n\n")
	}
	src.WriteString(g.decl.String())
	if withImport {
		fmt.Fprintf(&src, "func main() {\n\thost.Tick(800 + dep.F(0))\n\tactor%d()\n\thost.Tick(801)\n}\n", root)
	} else {
		fmt.Fprintf(&src, "func main() {\n\thost.Tick(800)\n\tactor%d()\n\thost.Tick(801)\n}\n", root)
	}
	return &C09Prog{Src: src.String(), Desc: fmt.Sprintf("init=%d %s", initKind, strings.Join(g.desc, " ")), Bodies: g.bodies, BodyOf: g.bodyOf, Init: initKind, Sleeps: g.sleeps, Root: root, Warm: g.warm}
}
