package sim

import (
	"time"
	"bytes"
	"context"
	"errors"
	"fmt"
	"os"
	"path/filepath"
	"reflect"
	"sort"
	"strings"
	"sync"
	"testing"

	"github.com/traefik/yaegi/interp"
	"github.com/traefik/yaegi/stdlib"
	"verif/sim/host"
)

// C19: running under the debugger does not change behaviour (DESIGN 4, C19).
// The debugger client is simulated: breakpoint sets and resume requests come from
// the tape, the controller/debuggee interleaving is the scheduler's.

type c19Gen struct {
	b     strings.Builder
	line  int
	tape  *Tape
	funcs []string // names of helper functions with the line of their first statement
	fline map[string]int
	marks []int
	depth int
	budget int
	inCase int // >0 inside a switch clause: yaegi does not resolve labels declared there
}

func (g *c19Gen) raw(s string) {
	g.b.WriteString(s)
	g.b.WriteString("\n")
	g.line++
}

// stmt writes a marked statement line and returns its line number.
func (g *c19Gen) stmt(indent int, s string) int {
	l := g.line + 1
	g.marks = append(g.marks, l)
	g.raw(fmt.Sprintf("%shost.Tick(%d); %s", strings.Repeat("\t", indent), l, s))
	return l
}

func (g *c19Gen) block(indent int, n int, inFunc bool) {
	for i := 0; i < n && g.budget > 0; i++ {
		g.budget--
		k := g.tape.Choose(32)
		if g.depth >= 2 && (k == 1 || k == 2 || k == 3 || (k >= 14 && k <= 22)) {
			k = 0
		}
		if g.inCase > 0 && (k == 15 || k == 18) {
			k = 0
		}
		in := strings.Repeat("\t", indent)
		id := g.line + 1
		switch k {
		case 0, 9:
			g.stmt(indent, fmt.Sprintf("x = x*3 + %d", 1+g.tape.Choose(7)))
		case 1:
			g.stmt(indent, fmt.Sprintf("for i := 0; i < %d; i++ {", 1+g.tape.Choose(3)))
			g.depth++
			g.block(indent+1, 1+g.tape.Choose(2), inFunc)
			g.depth--
			g.raw(strings.Repeat("\t", indent) + "}")
		case 2:
			g.stmt(indent, "if x%2 == 0 {")
			g.depth++
			g.block(indent+1, 1+g.tape.Choose(2), inFunc)
			g.raw(strings.Repeat("\t", indent) + "} else {")
			g.block(indent+1, 1, inFunc)
			g.depth--
			g.raw(strings.Repeat("\t", indent) + "}")
		case 3:
			g.stmt(indent, "switch x % 3 {")
			g.raw(strings.Repeat("\t", indent) + "case 0:")
			g.depth++
			g.inCase++
			g.block(indent+1, 1, inFunc)
			g.raw(strings.Repeat("\t", indent) + "case 1:")
			g.block(indent+1, 1, inFunc)
			g.raw(strings.Repeat("\t", indent) + "default:")
			g.block(indent+1, 1, inFunc)
			g.depth--
			g.inCase--
			g.raw(strings.Repeat("\t", indent) + "}")
		case 4:
			if len(g.funcs) > 0 {
				f := g.funcs[g.tape.Choose(len(g.funcs))]
				g.stmt(indent, fmt.Sprintf("x = %s(x %% 1000)", f))
			} else {
				g.stmt(indent, "x++")
			}
		case 5:
			g.stmt(indent, "fmt.Println(\"x\", x)")
		case 6:
			g.stmt(indent, fmt.Sprintf("x = func(a int) int { return a + %d }(x)", 1+g.tape.Choose(5)))
		case 7:
			g.stmt(indent, fmt.Sprintf("x = acc{%d}.add(x)", 1+g.tape.Choose(5)))
		case 8:
			g.stmt(indent, "x = safe(x)")
		case 10:
			g.stmt(indent, fmt.Sprintf("defer func(v int) { fmt.Println(\"deferred\", v) }(%d)", g.tape.Choose(9)))
		case 11:
			g.stmt(indent, "x = rec(x%4) + x")
		case 12:
			g.stmt(indent, "x = spawn(x)")
		case 14:
			// range over a slice, a string, an integer or a one-entry map
			switch g.tape.Choose(4) {
			case 0:
				g.stmt(indent, "for i, e := range []int{x % 3, 2, x % 5} {")
				g.stmt(indent+1, "x += e + i")
			case 1:
				g.stmt(indent, "for _, c := range \"ab\" {")
				g.stmt(indent+1, "x += int(c) % 5")
			case 2:
				g.stmt(indent, "for i := range 3 {")
				g.stmt(indent+1, "x += i")
			case 3:
				g.stmt(indent, "for k, v := range map[int]int{2: x % 9} {")
				g.stmt(indent+1, "x += k + v")
			}
			g.depth++
			g.block(indent+1, g.tape.Choose(2), inFunc)
			g.depth--
			g.raw(in + "}")
		case 15:
			// labeled loops: continue and break of the outer loop from the inner one
			lab := fmt.Sprintf("L%d", id)
			g.stmt(indent, "x++")
			g.raw(in + lab + ":")
			g.raw(in + "for i := 0; i < 3; i++ {")
			g.stmt(indent+1, "for j := 0; j < 2; j++ {")
			g.stmt(indent+2, "if (x+i+j)%3 == 0 {")
			g.stmt(indent+3, "continue "+lab)
			g.raw(in + "\t\t}")
			g.stmt(indent+2, "if x%5 == 0 {")
			g.stmt(indent+3, "break "+lab)
			g.raw(in + "\t\t}")
			g.stmt(indent+2, "x += j + 1")
			g.raw(in + "\t}")
			g.raw(in + "}")
		case 16:
			// expression-less switch with init statement and fallthrough
			g.stmt(indent, fmt.Sprintf("switch y := x %% %d; {", 3+g.tape.Choose(2)))
			g.raw(in + "case y == 0:")
			g.stmt(indent+1, "x += 1")
			g.raw(in + "\tfallthrough")
			g.raw(in + "case y == 1:")
			g.depth++
			g.inCase++
			g.block(indent+1, 1, inFunc)
			g.inCase--
			g.depth--
			g.raw(in + "default:")
			g.stmt(indent+1, "x += 3")
			g.raw(in + "}")
		case 17:
			// type switch with a bound variable
			v := fmt.Sprintf("v%d", id)
			g.stmt(indent, "var "+v+" interface{} = x")
			g.stmt(indent, "if x%2 == 0 {")
			g.stmt(indent+1, v+" = \"str\"")
			g.raw(in + "}")
			g.stmt(indent, "switch t := "+v+".(type) {")
			g.raw(in + "case int:")
			g.stmt(indent+1, "x += t % 11")
			g.raw(in + "case string:")
			g.stmt(indent+1, "x += len(t)")
			g.raw(in + "default:")
			g.stmt(indent+1, "x = 0")
			g.raw(in + "}")
		case 18:
			// backward goto
			n, lab := fmt.Sprintf("n%d", id), fmt.Sprintf("G%d", id)
			g.stmt(indent, n+" := 0")
			g.raw(in + lab + ":")
			g.stmt(indent, n+"++")
			g.stmt(indent, "x += "+n)
			g.stmt(indent, "if "+n+" < 2+x%2 {")
			g.stmt(indent+1, "goto "+lab)
			g.raw(in + "}")
		case 19:
			// if with init statement and short-circuit operators calling a function
			g.stmt(indent, "if y := x % 4; y > 1 && pos(y) || pos(x%7-3) {")
			g.depth++
			g.block(indent+1, 1, inFunc)
			g.depth--
			g.raw(in + "} else if !pos(x % 3) {")
			g.stmt(indent+1, "x += 5")
			g.raw(in + "}")
		case 20:
			// loop with continue and break
			g.stmt(indent, "for i := 0; i < 4; i++ {")
			g.stmt(indent+1, "if (x+i)%3 == 0 {")
			g.stmt(indent+2, "continue")
			g.raw(in + "\t}")
			g.stmt(indent+1, "if i == 2 {")
			g.stmt(indent+2, "break")
			g.raw(in + "\t}")
			g.stmt(indent+1, "x += i")
			g.raw(in + "}")
		case 21:
			// closure stored in a variable, capturing and updating x
			c := fmt.Sprintf("inc%d", id)
			g.stmt(indent, c+" := func(d int) int {")
			g.stmt(indent+1, "x += d")
			g.stmt(indent+1, "return x")
			g.raw(in + "}")
			g.stmt(indent, c+"(1)")
			g.stmt(indent, "x = "+c+"(2) + "+c+"(3)")
		case 22:
			// defers in a loop, one of them a closure over the loop variable
			g.stmt(indent, "for i := 0; i < 2; i++ {")
			g.stmt(indent+1, "defer func() {")
			g.stmt(indent+2, "fmt.Println(\"dl\", i)")
			g.raw(in + "\t}()")
			g.stmt(indent+1, "defer fmt.Println(\"dv\", i, x)")
			g.raw(in + "}")
		case 23:
			g.stmt(indent, fmt.Sprintf("x = acc.add(acc{%d}, x)", 1+g.tape.Choose(5)))
		case 24:
			g.stmt(indent, fmt.Sprintf("m%d := acc{%d}.add; x = m%d(x) + m%d(1)", id, 1+g.tape.Choose(5), id, id))
		case 25:
			g.stmt(indent, "x, _ = two(x)")
		case 26:
			g.stmt(indent, fmt.Sprintf("p%d := &acc{x %% 7}; p%d.bump(); x += p%d.k", id, id, id))
		case 27:
			// a run-time fault (index out of range, nil map write, division by
			// zero) recovered by the deferred function of the callee
			g.stmt(indent, "x = fault(x)")
		case 28:
			// a deferred function that panics while its function returns normally;
			// the caller's deferred function recovers
			g.stmt(indent, "x = outer2(x)")
		case 29:
			// a panic which comes from the FIRST node of a loop body, of a loop
			// condition or of a labeled statement reached by goto, in a later
			// iteration, in a function that does not recover it (those lines carry no
			// marker: the marker would be the first node); the caller recovers and
			// its result depends on the panic value
			g.stmt(indent, fmt.Sprintf("x = loopg(x, %d)", g.tape.Choose(3)))
		case 31:
			// a statement spanning several lines, with a function literal inside
			g.stmt(indent, "x = ml(x % 100)")
		case 30:
			// a closure created by an earlier evaluation of the session
			g.stmt(indent, "x = pre(x % 50)")
		case 13:
			// select used sequentially: buffered channel, default clause
			sc := fmt.Sprintf("sc%d", g.line+1)
			g.stmt(indent, sc+" := make(chan int, 1)")
			g.stmt(indent, "if x%2 == 0 {")
			g.stmt(indent+1, sc+" <- x % 7")
			g.raw(in + "}")
			g.stmt(indent, "select {")
			g.raw(in + "case v := <-" + sc + ":")
			g.stmt(indent+1, "x += v + 1")
			g.raw(in + "default:")
			g.stmt(indent+1, "x += 2")
			g.raw(in + "}")
			g.stmt(indent, "select {")
			g.raw(in + "case " + sc + " <- x:")
			g.stmt(indent+1, "x += len("+sc+")")
			g.raw(in + "}")
		}
	}
}

// C19Prog is a generated marker program.
type C19Prog struct {
	Src   string
	Marks []int
	FLine map[string]int
	Funcs []string
	// Tail: marked lines executed by a goroutine after it has released main
	// (their order relative to main's lines depends on the schedule).
	Tail       map[int]bool
	WorkerLine int // first marked line of the goroutine's function
	TailLast   int // last marked line of the tail
	WorkerEntry int // line of the first statement of the goroutine's function (unmarked)
	GoLine      int // line of the go statement
	// MLHead: first line of a statement spanning several lines whose nested
	// function literal has marked lines of its own (`r := mlapply(n, func...{`).
	// It carries no marker (the marker would be the first node of the line): its
	// breakpoint sits on the assignment, which executes right after the marked
	// line MLRet (the literal's return statement).
	MLHead, MLRet int
}

// GenC19 draws a sequential marker program: every statement is written as
// `host.Tick(L); stmt` on its own source line L.
func GenC19(tape *Tape) *C19Prog {
	g := &c19Gen{tape: tape, fline: map[string]int{}, budget: 14}
	g.raw("package main")
	g.raw("")
	g.raw("import (")
	g.raw("\t\"fmt\"")
	g.raw("\t\"verif/sim/host\"")
	g.raw(")")
	g.raw("")
	g.raw("type acc struct{ k int }")
	g.raw("")
	g.raw("func (a acc) add(x int) int {")
	g.fline["add"] = g.stmt(1, "y := x + a.k")
	g.stmt(1, "return y")
	g.raw("}")
	g.raw("")
	g.raw("func (a *acc) bump() {")
	g.fline["bump"] = g.stmt(1, "a.k++")
	g.raw("}")
	g.raw("")
	g.raw("func pos(v int) bool {")
	g.fline["pos"] = g.stmt(1, "return v > 0")
	g.raw("}")
	g.raw("")
	g.raw("func two(x int) (a, b int) {")
	g.fline["two"] = g.stmt(1, "a, b = x+1, x+2")
	g.stmt(1, "return")
	g.raw("}")
	g.raw("")
	g.raw("func fault(x int) (r int) {")
	g.fline["fault"] = g.stmt(1, "defer func() {")
	g.stmt(2, "if e := recover(); e != nil {")
	g.stmt(3, "r = x + 50")
	g.raw("\t\t}")
	g.raw("\t}()")
	g.stmt(1, "a := []int{1, 2, 3}")
	g.stmt(1, "switch x % 3 {")
	g.raw("\tcase 0:")
	g.stmt(2, "r = a[x%3+3]")
	g.raw("\tcase 1:")
	g.stmt(2, "var m map[int]int")
	g.stmt(2, "m[x] = 1")
	g.raw("\tdefault:")
	g.stmt(2, "z := x % 1")
	g.stmt(2, "r = x / z")
	g.raw("\t}")
	g.stmt(1, "return r + 1")
	g.raw("}")
	g.raw("")
	g.raw("func inner2(x int) int {")
	g.fline["inner2"] = g.stmt(1, "defer func() {")
	g.stmt(2, "panic(fmt.Sprint(\"pd\", x))")
	g.raw("\t}()")
	g.stmt(1, "return x + 1")
	g.raw("}")
	g.raw("")
	g.raw("func outer2(x int) (r int) {")
	g.fline["outer2"] = g.stmt(1, "defer func() {")
	g.stmt(2, "if e := recover(); e != nil {")
	g.stmt(3, "r = x + 9")
	g.raw("\t\t}")
	g.raw("\t}()")
	g.stmt(1, "return inner2(x) + 1")
	g.raw("}")
	g.raw("")
	g.raw("func pan(n int) int {")
	g.raw("\tif n >= 2 {")
	g.raw("\t\tpanic(fmt.Sprint(\"lf\", n*7))")
	g.raw("\t}")
	g.raw("\treturn n")
	g.raw("}")
	g.raw("")
	g.raw("func loopf(x, form int) int {")
	g.raw("\tn := x % 2")
	g.raw("\tswitch form {")
	g.raw("\tcase 0:")
	g.raw("\t\tfor {")
	g.raw("\t\t\tpan(n)")
	g.raw("\t\t\tn++")
	g.raw("\t\t}")
	g.raw("\tcase 1:")
	g.raw("\t\tfor i := n; pan(i) < 100; i++ {")
	g.raw("\t\t\tn += i")
	g.raw("\t\t}")
	g.raw("\t}")
	g.raw("again:")
	g.raw("\tpan(n)")
	g.raw("\tn++")
	g.raw("\tgoto again")
	g.raw("}")
	g.raw("")
	g.raw("func loopg(x, form int) (r int) {")
	g.fline["loopg"] = g.stmt(1, "defer func() {")
	g.stmt(2, "if e := recover(); e != nil {")
	g.stmt(3, "r = x + len(fmt.Sprint(e))")
	g.raw("\t\t}")
	g.raw("\t}()")
	g.stmt(1, "return loopf(x, form)")
	g.raw("}")
	g.raw("")
	g.raw("func safe(x int) (r int) {")
	g.fline["safe"] = g.stmt(1, "defer func() {")
	g.stmt(2, "if e := recover(); e != nil {")
	g.stmt(3, "r = x + 100")
	g.raw("\t\t}")
	g.raw("\t}()")
	g.stmt(1, "if x%3 == 0 {")
	g.stmt(2, "panic(\"p\")")
	g.raw("\t}")
	g.stmt(1, "return x + 1")
	g.raw("}")
	g.raw("")
	g.raw("func mlapply(n int, f func(int) int) int { return f(n) }")
	g.raw("")
	g.raw("func ml(x int) int {")
	mlHead := g.line + 1
	g.raw("\tr := mlapply(x%7, func(v int) int {")
	g.stmt(2, "w := v * 2")
	mlRet := g.stmt(2, "return w + 1")
	g.raw("\t})")
	g.stmt(1, "return r + x")
	g.raw("}")
	g.raw("")
	g.raw("func rec(n int) int {")
	g.fline["rec"] = g.stmt(1, "if n <= 0 {")
	g.stmt(2, "return 1")
	g.raw("\t}")
	g.stmt(1, "return n * rec(n-1)")
	g.raw("}")
	g.raw("")
	// a goroutine whose function is left by a panic which its own deferred
	// function recovers; main waits for it, so the execution stays sequential
	// in some programs the goroutine goes on after it has released main: it calls
	// one more function while main continues and possibly returns (the session
	// ends only when every goroutine has ended; breakpoints hit by that tail
	// must be reported like any other)
	hasTail := tape.Choose(3) == 2
	tail := map[int]bool{}
	tailLast := 0
	if hasTail {
		g.raw("func tail(r int) int {")
		g.fline["tail"] = g.stmt(1, "y := r * 2")
		tail[g.fline["tail"]] = true
		tailLast = g.stmt(1, "return y + 1")
		tail[tailLast] = true
		g.raw("}")
		g.raw("")
	}
	g.raw("func worker(x int, ch, start chan int) {")
	workerEntry := g.line + 1 // where a function breakpoint on worker stops (no marker: judged by count)
	g.raw("\t<-start")
	g.raw("\tr := x + 1")
	g.fline["worker"] = g.stmt(1, "defer func() {")
	g.stmt(2, "if e := recover(); e != nil {")
	g.stmt(3, "r = x + 7")
	g.raw("\t\t}")
	g.raw("\t\tch <- r")
	if hasTail {
		tail[g.stmt(2, "tail(r)")] = true
	}
	g.raw("\t}()")
	g.stmt(1, "if x%2 == 0 {")
	g.stmt(2, "panic(\"w\")")
	g.raw("\t}")
	g.stmt(1, "r++")
	g.raw("}")
	g.raw("")
	g.raw("func spawn(x int) int {")
	g.fline["spawn"] = g.stmt(1, "ch, start := make(chan int), make(chan int)")
	goLine := g.stmt(1, "go worker(x, ch, start)")
	g.stmt(1, "start <- 1; return <-ch")
	g.raw("}")
	g.raw("")
	// now and then a very long straight-line function: the generation of exec
	// closures and the debugger's node tracking must not depend on the size of a body
	hasLong := tape.Choose(10) == 9
	if hasLong {
		g.raw("func long(x int) int {")
		n := 100 + tape.Choose(160)
		g.fline["long"] = g.line + 1
		for i := 0; i < n; i++ {
			switch i % 5 {
			case 0, 1:
				g.stmt(1, fmt.Sprintf("x = (x*3 + %d) %% 1000", 1+i%7))
			case 2:
				g.stmt(1, "{ y := x + 1; x += y % 3 }")
			case 3:
				g.stmt(1, "if x%2 == 0 { x++ }")
			case 4:
				g.stmt(1, "x = pos2(x)")
			}
		}
		g.stmt(1, "return x")
		g.raw("}")
		g.raw("")
		g.raw("func pos2(v int) int { return v + 2 }")
		g.raw("")
	}
	nf := tape.Choose(3)
	for i := 0; i < nf; i++ {
		name := fmt.Sprintf("f%d", i)
		g.raw(fmt.Sprintf("func %s(x int) int {", name))
		start := len(g.marks)
		g.budget = 4
		g.block(1, 1+tape.Choose(2), true)
		g.stmt(1, "return x")
		g.raw("}")
		g.raw("")
		g.fline[name] = g.marks[start]
		g.funcs = append(g.funcs, name)
	}
	g.raw("func main() {")
	g.stmt(1, fmt.Sprintf("x := %d", 1+tape.Choose(9)))
	if hasLong {
		g.stmt(1, "x = long(x)")
	}
	g.budget = 10
	g.block(1, 2+tape.Choose(5), false)
	switch tape.Choose(6) {
	case 5:
		g.stmt(1, "panic(fmt.Sprint(\"final \", x))")
	case 4:
		// an uncaught run-time fault
		g.stmt(1, "var fm map[string]int")
		g.stmt(1, "fm[\"a\"] = x")
	}
	g.stmt(1, "fmt.Println(\"end\", x)")
	g.raw("}")
	funcs := append([]string{"add", "safe", "rec", "spawn", "pos", "two", "bump", "fault", "outer2", "inner2", "loopg", "worker"}, g.funcs...)
	if hasLong {
		funcs = append(funcs, "long")
	}
	if hasTail {
		funcs = append(funcs, "tail")
	}
	return &C19Prog{Src: g.b.String(), Marks: g.marks, FLine: g.fline, Funcs: funcs, Tail: tail, WorkerLine: g.fline["worker"], TailLast: tailLast, WorkerEntry: workerEntry, GoLine: goLine, MLHead: mlHead, MLRet: mlRet}
}

type c19Result struct {
	out    string
	ticks  []int
	resStr string
	errStr string
	ok     bool
	workers int // goroutines entered (programs with a tail)
}

func errString(err error) string {
	if err == nil {
		return "<nil>"
	}
	var p interp.Panic
	if errors.As(err, &p) {
		return "Panic(" + hostClassify(unwrapRV(p.Value)) + ")"
	}
	return err.Error()
}

func unwrapRV(v any) any {
	if rv, ok := v.(reflect.Value); ok && rv.IsValid() && rv.CanInterface() {
		return rv.Interface()
	}
	return v
}

func resString(v reflect.Value) string {
	if !v.IsValid() {
		return "<invalid>"
	}
	switch v.Kind() {
	case reflect.Func:
		return "<func>"
	case reflect.Ptr, reflect.Chan, reflect.Map, reflect.UnsafePointer, reflect.Interface:
		return fmt.Sprintf("%v:<ref>", v.Type())
	}
	return fmt.Sprintf("%v:%v", v.Type(), v)
}

// c19Prelude is evaluated on the interpreter BEFORE the program is compiled and
// debugged, as an earlier step of a session: the closure held by `pre` captures a
// frame that was created when no debugger was attached.
const c19Prelude = `package main

func mkpre(k int) func(int) int {
	return func(v int) int { return v + k }
}

var pre = mkpre(3)
`

// c19Session returns a fresh interpreter, with the prelude evaluated if the
// program uses it.
func c19Session(stdout *bytes.Buffer, src string) (*interp.Interpreter, error) {
	it := c19Interp(stdout)
	if strings.Contains(src, "pre(") {
		if _, err := it.Eval(c19Prelude); err != nil {
			return nil, err
		}
	}
	return it, nil
}

func c19Interp(stdout *bytes.Buffer) *interp.Interpreter {
	i := interp.New(interp.Options{Stdout: stdout, Stderr: &bytes.Buffer{}})
	if err := i.Use(stdlib.Symbols); err != nil {
		panic(err)
	}
	if err := i.Use(host.Symbols); err != nil {
		panic(err)
	}
	return i
}

// c19Plain is the reference: plain Execute of the program on a fresh interpreter.
func c19Plain(src string, gp *C19Prog) (res c19Result) {
	var out bytes.Buffer
	sink := host.NewSink(20000, nil)
	host.Cur.Store(sink)
	defer host.Cur.Store(nil)
	it, err := c19Session(&out, src)
	if err != nil {
		res.errStr = "prelude: " + err.Error()
		return res
	}
	prog, err := it.Compile(src)
	if err != nil {
		res.errStr = "compile: " + err.Error()
		return res
	}
	func() {
		defer func() {
			if p := recover(); p != nil {
				res.errStr = fmt.Sprintf("host panic: %v", p)
			}
		}()
		v, err := it.Execute(prog)
		res.resStr, res.errStr = resString(v), errString(err)
		res.ok = true
	}()
	res.out = out.String()
	if gp != nil && len(gp.Tail) > 0 {
		// goroutines may still be executing their tail: Execute does not wait for
		// them. Every goroutine entered executes the whole tail once.
		deadline := time.Now().Add(10 * time.Second)
		for {
			entered, done := 0, 0
			for _, e := range sink.Events() {
				if e.Kind == host.KTick && e.Tag == gp.WorkerLine {
					entered++
				}
				if e.Kind == host.KTick && e.Tag == gp.TailLast {
					done++
				}
			}
			if done >= entered {
				break
			}
			if time.Now().After(deadline) {
				res.ok = false
				res.errStr = "a goroutine of the reference run did not finish its tail"
				return res
			}
			time.Sleep(200 * time.Microsecond)
		}
	}
	for _, e := range sink.Events() {
		if e.Kind == host.KTick {
			if gp != nil && gp.Tail[e.Tag] {
				continue // schedule-dependent position: judged by count
			}
			res.ticks = append(res.ticks, e.Tag)
			if gp != nil && e.Tag == gp.WorkerLine {
				res.workers++
			}
		}
	}
	if sink.Overflow() {
		res.ok = false
	}
	return res
}

// c19PlainSecond is the reference of a SECOND execution of the compiled program on
// the same interpreter (what a second debug session must reproduce).
func c19PlainSecond(src string) (res c19Result) {
	var out bytes.Buffer
	sink := host.NewSink(40000, nil)
	host.Cur.Store(sink)
	defer host.Cur.Store(nil)
	it, err := c19Session(&out, src)
	if err != nil {
		res.errStr = "prelude: " + err.Error()
		return res
	}
	p, err := it.Compile(src)
	if err != nil {
		res.errStr = "compile: " + err.Error()
		return res
	}
	n0, t0 := 0, 0
	func() {
		defer func() {
			if p := recover(); p != nil {
				res.errStr = fmt.Sprintf("host panic: %v", p)
			}
		}()
		_, _ = it.Execute(p)
		n0 = out.Len()
		t0 = len(sink.Events())
		v, err := it.Execute(p)
		res.resStr, res.errStr = resString(v), errString(err)
		res.ok = true
	}()
	res.out = out.String()[n0:]
	for _, e := range sink.Events()[t0:] {
		if e.Kind == host.KTick {
			res.ticks = append(res.ticks, e.Tag)
		}
	}
	if sink.Overflow() {
		res.ok = false
	}
	return res
}

type c19Event struct {
	reason interp.DebugEventReason
	line   int
	g      int
}

var (
	corpusOnce sync.Once
	corpus     []string // sequential repository samples (source text)
	corpusName []string
)

func loadCorpus() {
	corpusOnce.Do(func() {
		dir := os.Getenv("VERIF_REPO")
		if dir == "" {
			dir = "/repo"
		}
		files, _ := filepath.Glob(filepath.Join(dir, "_test", "*.go"))
		sort.Strings(files)
		for _, f := range files {
			b, err := os.ReadFile(f)
			if err != nil || len(b) > 6000 {
				continue
			}
			s := string(b)
			if !strings.Contains(s, "// Output:") || !strings.Contains(s, "func main()") || !strings.HasPrefix(strings.TrimSpace(s), "package main") {
				continue
			}
			skip := false
			for _, bad := range []string{"go func", "\tgo ", "time.", "sync.", "os.", "net/", "\"unsafe\"", "github.com/", "select {", "chan ", "runtime.", "rand.", "bufio", "context", "exec", "flag.", "log.", "syscall", "\"io", "reflect."} {
				if strings.Contains(s, bad) {
					skip = true
					break
				}
			}
			if skip {
				continue
			}
			corpus = append(corpus, s)
			corpusName = append(corpusName, filepath.Base(f))
		}
	})
}

// RunC19 executes one (program, breakpoint set, resume policy, interleaving).
func RunC19(t *testing.T, tape *Tape) *Outcome {
	o := &Outcome{Detail: map[string]any{}, FaultFired: map[string]int{}}
	loadCorpus()
	var src, pname string
	var prog *C19Prog
	useCorpus := len(corpus) > 0 && tape.Choose(3) == 2
	if useCorpus {
		ci := tape.Choose(len(corpus))
		src, pname = corpus[ci], "sample:"+corpusName[ci]
	} else {
		prog = GenC19(tape)
		src, pname = prog.Src, "generated"
	}
	ref := c19Plain(src, prog)
	if !ref.ok {
		o.Inconclusive = "reference run unusable: " + ref.errStr
		if useCorpus {
			// samples that do not even run plainly are simply skipped
			o.Inconclusive = ""
			o.Desc = pname + " (skipped: does not run plainly)"
			return o
		}
		return o
	}
	// breakpoints
	bpMode := tape.Choose(5) // 0 none, 1 every marked line, 2 random subset, 3 function breakpoints, 4 mix
	var lineBP []int
	var funcBP []string
	lines := []int{}
	if prog != nil {
		lines = append(append(lines, prog.Marks...), prog.MLHead)
	} else {
		nl := strings.Count(src, "\n")
		for l := 1; l <= nl; l++ {
			lines = append(lines, l)
		}
	}
	switch bpMode {
	case 1:
		lineBP = append(lineBP, lines...)
	case 2, 4:
		for _, l := range lines {
			if tape.Choose(3) == 0 {
				lineBP = append(lineBP, l)
			}
		}
	}
	if prog != nil && (bpMode == 3 || bpMode == 4) {
		for _, f := range prog.Funcs {
			if tape.Choose(2) == 0 {
				funcBP = append(funcBP, f)
			}
		}
		// no line breakpoint on the first line of a function that has a function breakpoint
		var keep []int
		for _, l := range lineBP {
			dup := false
			for _, f := range funcBP {
				if prog.FLine[f] == l {
					dup = true
				}
			}
			if !dup {
				keep = append(keep, l)
			}
		}
		lineBP = keep
	}
	lateBP := tape.Choose(4) == 3 // install the breakpoints while stopped at the entry event
	// replace the whole breakpoint set while stopped at the k-th break event
	// (generated programs with line breakpoints only; the new set has line AND
	// function requests, so that stale breakpoints of both kinds are reset)
	var lineBP2 []int
	var funcBP2 []string
	switchAt := 0
	if prog != nil && len(prog.Tail) == 0 && len(lineBP) > 0 && tape.Choose(3) == 2 {
		switchAt = 1 + tape.Choose(4)
		if f2 := prog.Funcs[tape.Choose(len(prog.Funcs))]; f2 == "worker" {
			funcBP2 = append(funcBP2, prog.Funcs[0])
		} else {
			funcBP2 = append(funcBP2, f2)
		}
		for _, l := range lines {
			if tape.Choose(3) == 0 && prog.FLine[funcBP2[0]] != l {
				lineBP2 = append(lineBP2, l)
			}
		}
		if len(lineBP2) == 0 {
			for _, l := range lines {
				if prog.FLine[funcBP2[0]] != l {
					lineBP2 = append(lineBP2, l)
					break
				}
			}
		}
	}
	policy := tape.Choose(5)      // 0 continue only; 1 step-into only; 2 step-over; 3 step-out mix; 4 random mix
	// a second debug session of the same program on the same interpreter, started
	// as soon as Wait has returned (the first session's goroutine may still be
	// finishing): same breakpoints, continue only
	twoSessions := prog != nil && len(prog.Tail) == 0 && tape.Choose(4) == 3
	var ref2 c19Result
	if twoSessions {
		ref2 = c19PlainSecond(src)
		if !ref2.ok {
			twoSessions = false
		}
	}
	// now and then the client pauses the running program (Interrupt) some time
	// after a resume request, or ends the session with Terminate at its k-th stop
	// the client looks at the whole stack at every stop, as an adapter does to fill
	// its call-stack and variables views: names, positions, scopes, variables
	inspect := tape.Choose(3) == 2
	interruptEvery := 0
	if tape.Choose(4) == 3 {
		interruptEvery = 1 + tape.Choose(3)
	}
	termAt := -1 // none; 0 = Terminate is the first request of the session, before any resume
	if prog != nil && len(prog.Tail) == 0 && !twoSessions && tape.Choose(3) == 2 {
		termAt = tape.Choose(9)
	}
	// ... or at one of its first stops on the line of the go statement: the
	// statement the program is stopped at still executes after Terminate
	termGoIdx := -1
	if termAt >= 0 && prog != nil && strings.Contains(prog.Src, "= spawn(") && tape.Choose(3) != 0 {
		termGoIdx = tape.Choose(6)
		policy = 1 // step-into: a stop before every node of the line
	}
	if switchAt > 0 {
		pname += fmt.Sprintf(" [replace set at break %d: lines %d funcs %v]", switchAt, len(lineBP2), funcBP2)
	}
	if termGoIdx >= 0 {
		pname += fmt.Sprintf(" [at stop %d on the go statement's line]", termGoIdx+1)
	}
	if interruptEvery > 0 {
		pname += fmt.Sprintf(" [Interrupt after every %d resume requests]", interruptEvery)
	}
	if termAt >= 0 {
		pname += fmt.Sprintf(" [Terminate at stop %d]", termAt)
	}
	o.Desc = fmt.Sprintf("%s bp=%s(lines %d, funcs %v, late=%v) policy=%s", pname, [...]string{"none", "every-line", "subset", "funcs", "mix"}[bpMode], len(lineBP), funcBP, lateBP,
		[...]string{"continue", "step-into", "step-over", "step-out-mix", "random-mix"}[policy])
	if prog != nil {
		o.Detail["program"] = src
	}
	o.Detail["sample"] = pname
	cfg := SchedCfg(tape, false)
	cfg.MaxOps = 400000
	cfg.MaxDecisions = 40000
	// statement-level preemption inside the debugger's own code: the window between
	// the event callback and the blocking receive on the resume channel
	if tape.Choose(2) == 1 {
		for i, s := range interp.VerifSites {
			if s.File == "debugger.go" && s.Kind == "stmt" && (s.Func == "exec" || s.Func == "Step" || s.Func == "Continue") {
				cfg.HotSites = append(cfg.HotSites, i)
			}
			if twoSessions && s.File == "debugger.go" && s.Kind == "stmt" && s.Func == "Debug.func.func" {
				// the last thing the goroutine of a session does (detaching the
				// debugger from the interpreter)
				cfg.AlwaysSites = append(cfg.AlwaysSites, i)
			}
		}
		cfg.YieldBudget = 40 + tape.Choose(200)
		if twoSessions {
			// the goroutine of the first session may be slow to finish
			cfg.StallMax = [...]int{0, 4, 20, 60}[tape.Choose(4)]
		}
	}

	var out bytes.Buffer
	var events []c19Event
	var mu sync.Mutex
	var waitRes reflect.Value
	var waitErr error
	var waited, setupFailed bool
	var setupErr string
	var validLines map[int]bool
	var validFuncs map[string]int
	errRunning, requests := 0, 0
	var hostPanic any
	var sink *host.Sink
	terminateSeenBeforeWait := false
	inSetBP := false
	var validLines2 map[int]bool
	var validFuncs2 map[string]int
	var rejected []int // requested lines of a generated program (each has a statement) reported not valid
	ticksAtSwitch := -1
	breaksSeen := 0
	var events2 []c19Event
	var valid2Lines map[int]bool
	var valid2Funcs map[int]bool
	var wait2Res reflect.Value
	var wait2Err error
	waited2, started2, overlap2 := false, false, false
	stopsSeen, interrupts, terminated := 0, 0, false
	goStops := 0
	var inspectPanic any
	inspected := 0
	out2Start, ticks2Start := 0, 0

	res := Simulate(t, tape, cfg, func(r *Run) {
		sink = r.NewSink(20000, nil)
		host.Cur.Store(sink)
		evch := make(chan c19Event, 100000)
		r.Spawn("c0", func() {
			defer func() {
				if p := recover(); p != nil {
					if _, ok := p.(abortSentinel); ok {
						panic(p)
					}
					hostPanic = p
				}
				r.Finish2()
			}()
			it, err := c19Session(&out, src)
			if err != nil {
				setupFailed, setupErr = true, err.Error()
				return
			}
			p, err := it.Compile(src)
			if err != nil {
				setupFailed, setupErr = true, err.Error()
				return
			}
			ctxD, cancelD := context.WithCancel(context.Background())
			defer cancelD()
			dbg := it.Debug(ctxD, p, func(e *interp.DebugEvent) {
				ev := c19Event{reason: e.Reason(), g: -1}
				if e.Reason() != interp.DebugTerminate {
					ev.g = e.GoRoutine()
					if fr := e.Frames(0, 1); len(fr) > 0 {
						ev.line = fr[0].Position().Line
					}
					if inspect && e.Reason() != interp.DebugEnterGoRoutine && e.Reason() != interp.DebugExitGoRoutine {
						func() {
							defer func() {
								if p := recover(); p != nil {
									if _, ok := p.(abortSentinel); ok {
										panic(p)
									}
									mu.Lock()
									if inspectPanic == nil {
										inspectPanic = p
									}
									mu.Unlock()
								}
							}()
							n := 0
							for _, fr := range e.Frames(0, e.FrameDepth()) {
								n += len(fr.Name()) + fr.Position().Line
								_ = fr.Program()
								for _, sc := range fr.Scopes() {
									_ = sc.IsClosure()
									for _, v := range sc.Variables() {
										n += len(v.Name)
										if v.Value.IsValid() {
											n += int(v.Value.Kind())
										}
									}
								}
							}
							inspected += n*0 + 1
						}()
					}
				}
				mu.Lock()
				events = append(events, ev)
				mu.Unlock()
				evch <- ev
			}, nil)
			install := func() {
				var reqs []interp.BreakpointRequest
				for _, l := range lineBP {
					reqs = append(reqs, interp.LineBreakpoint(l))
				}
				for _, f := range funcBP {
					reqs = append(reqs, interp.FunctionBreakpoint(f))
				}
				if len(reqs) == 0 {
					validLines, validFuncs = map[int]bool{}, map[string]int{}
					return
				}
				inSetBP = true
				bps := dbg.SetBreakpoints(interp.ProgramBreakpointTarget(p), reqs...)
				inSetBP = false
				validLines, validFuncs = map[int]bool{}, map[string]int{}
				for i, bp := range bps {
					if !bp.Valid {
						if prog != nil && i < len(lineBP) {
							rejected = append(rejected, lineBP[i])
						}
						continue
					}
					if i < len(lineBP) {
						validLines[lineBP[i]] = true
					} else {
						validFuncs[funcBP[i-len(lineBP)]] = bp.Position.Line
					}
				}
			}
			install2 := func() {
				var reqs []interp.BreakpointRequest
				for _, l := range lineBP2 {
					reqs = append(reqs, interp.LineBreakpoint(l))
				}
				for _, f := range funcBP2 {
					reqs = append(reqs, interp.FunctionBreakpoint(f))
				}
				ticksAtSwitch = 0
				for _, e := range sink.Events() {
					if e.Kind == host.KTick {
						ticksAtSwitch++
					}
				}
				inSetBP = true
				bps := dbg.SetBreakpoints(interp.ProgramBreakpointTarget(p), reqs...)
				inSetBP = false
				validLines2, validFuncs2 = map[int]bool{}, map[string]int{}
				for i, bp := range bps {
					if !bp.Valid {
						if prog != nil && i < len(lineBP2) {
							rejected = append(rejected, lineBP2[i])
						}
						continue
					}
					if i < len(lineBP2) {
						validLines2[lineBP2[i]] = true
					} else {
						validFuncs2[funcBP2[i-len(lineBP2)]] = bp.Position.Line
					}
				}
			}
			if !lateBP {
				install()
			}
			// first resume: step with DebugEntry produces an entry event if late
			// installation is wanted, else plain request by policy
			first := true
			gid := 0 // the goroutine to resume: the one that reported the last stop
		session:
			for {
				if termAt >= 0 && ((termGoIdx < 0 && stopsSeen >= termAt) || (termGoIdx >= 0 && goStops > termGoIdx)) {
					// end the session while the program is stopped
					// (Terminate "attempts to terminate the program": it reaches the
					// goroutines that pass through the debugger, not one blocked in a
					// channel operation; the client also cancels the context it gave to
					// Debug, as an adapter does when its user disconnects)
					terminated = true
					dbg.Terminate()
					cancelD()
					for {
						if ev := <-evch; ev.reason == interp.DebugTerminate {
							terminateSeenBeforeWait = true
							waitRes, waitErr = dbg.Wait()
							waited = true
							break session
						}
					}
				}
				var reason interp.DebugEventReason
				cont := false
				switch {
				case first && lateBP:
					reason = interp.DebugEntry
				case policy == 0:
					cont = true
				case policy == 1:
					reason = interp.DebugStepInto
				case policy == 2:
					reason = interp.DebugStepOver
				case policy == 3:
					reason = [...]interp.DebugEventReason{interp.DebugStepOut, interp.DebugStepOver, interp.DebugStepInto}[tape.Choose(3)]
				default:
					switch tape.Choose(4) {
					case 0:
						cont = true
					case 1:
						reason = interp.DebugStepInto
					case 2:
						reason = interp.DebugStepOver
					case 3:
						reason = interp.DebugStepOut
					}
				}
				first = false
				for tries := 0; ; tries++ {
					requests++
					var err error
					if cont {
						err = dbg.Continue(gid)
					} else {
						err = dbg.Step(gid, reason)
					}
					if err == nil {
						break
					}
					if errors.Is(err, interp.ErrRunning) && tries < 10000 {
						errRunning++
						HostYield()
						continue
					}
					if errors.Is(err, interp.ErrNotLive) {
						// the routine ended between the event and the request
						break
					}
					setupFailed, setupErr = true, "resume request failed: "+err.Error()
					return
				}
				if interruptEvery > 0 && requests%interruptEvery == 0 {
					// let the program run for a while, then ask it to pause
					for n := tape.Choose(6); n > 0; n-- {
						HostYield()
					}
					if dbg.Interrupt(gid, interp.DebugPause) {
						interrupts++
					}
				}
				// wait for the next stop of goroutine 0 or the end
				stop := false
				for !stop {
					ev := <-evch
					switch ev.reason {
					case interp.DebugTerminate:
						terminateSeenBeforeWait = true
						waitRes, waitErr = dbg.Wait()
						waited = true
						break session
					case interp.DebugEnterGoRoutine, interp.DebugExitGoRoutine:
						// informational
					default:
						stop = true
						stopsSeen++
						if prog != nil && ev.line == prog.GoLine {
							goStops++
						}
						gid = ev.g
						if ev.reason == interp.DebugEntry && lateBP && validLines == nil {
							install()
						}
						if ev.reason == interp.DebugBreak {
							breaksSeen++
							if switchAt > 0 && breaksSeen == switchAt && ticksAtSwitch < 0 && validLines[ev.line] {
								install2()
							}
						}
					}
				}
			}
			if !twoSessions {
				return
			}
			// ---- second session ----
			started2 = true
			out2Start = out.Len()
			ticks2Start = len(sink.Events())
			evch2 := make(chan c19Event, 100000)
			dbg2 := it.Debug(context.Background(), p, func(e *interp.DebugEvent) {
				ev := c19Event{reason: e.Reason(), g: -1}
				if e.Reason() != interp.DebugTerminate {
					ev.g = e.GoRoutine()
					if fr := e.Frames(0, 1); len(fr) > 0 {
						ev.line = fr[0].Position().Line
					}
				}
				mu.Lock()
				events2 = append(events2, ev)
				mu.Unlock()
				evch2 <- ev
			}, nil)
			for _, tk := range r.Tasks() {
				if !tk.Client && !tk.Exited() && tk.Name != "c0" {
					overlap2 = true // the first session's goroutine has not finished yet
				}
			}
			valid2Lines, valid2Funcs = map[int]bool{}, map[int]bool{}
			{
				var reqs []interp.BreakpointRequest
				for _, l := range lineBP {
					reqs = append(reqs, interp.LineBreakpoint(l))
				}
				for _, f := range funcBP {
					reqs = append(reqs, interp.FunctionBreakpoint(f))
				}
				if len(reqs) > 0 {
					inSetBP = true
					bps := dbg2.SetBreakpoints(interp.ProgramBreakpointTarget(p), reqs...)
					inSetBP = false
					for i, bp := range bps {
						if !bp.Valid {
							continue
						}
						if i < len(lineBP) {
							valid2Lines[lineBP[i]] = true
						} else {
							valid2Funcs[bp.Position.Line] = true
						}
					}
				}
			}
			gid = 0
			for {
				for tries := 0; ; tries++ {
					requests++
					err := dbg2.Continue(gid)
					if err == nil || errors.Is(err, interp.ErrNotLive) {
						break
					}
					if errors.Is(err, interp.ErrRunning) && tries < 10000 {
						errRunning++
						HostYield()
						continue
					}
					setupFailed, setupErr = true, "resume request of the second session failed: "+err.Error()
					return
				}
				stop := false
				for !stop {
					ev := <-evch2
					switch ev.reason {
					case interp.DebugTerminate:
						wait2Res, wait2Err = dbg2.Wait()
						waited2 = true
						return
					case interp.DebugEnterGoRoutine, interp.DebugExitGoRoutine:
					default:
						stop = true
						gid = ev.g
					}
				}
			}
		})
	}, nil)
	r := res.Run
	fillOutcome(o, &res)
	if res.HarnessErr != "" {
		o.Inconclusive = "harness panic: " + res.HarnessErr
		return o
	}
	if setupFailed {
		o.Inconclusive = "debug session could not be set up: " + setupErr
		return o
	}
	stops := 0
	for _, e := range events {
		if e.reason != interp.DebugTerminate && e.reason != interp.DebugEnterGoRoutine && e.reason != interp.DebugExitGoRoutine {
			stops++
		}
	}
	o.NonTrivial = stops > 0
	o.FaultFired["resume-requests"] += requests
	o.FaultFired["step-refused-ErrRunning"] += errRunning
	o.FaultFired["stop-events"] += stops
	kind := "generated"
	if useCorpus {
		kind = "sample"
	}
	bpk := [...]string{"none", "lines", "lines", "funcs", "mix"}[bpMode]
	if hostPanic != nil {
		msg := fmt.Sprint(hostPanic)
		if len(msg) > 300 {
			msg = msg[:300]
		}
		where := "debug-session"
		if inSetBP {
			where = "SetBreakpoints"
		}
		o.addV("C19", "no-crash", fmt.Sprintf("debugger-panic in=%s prog=%s", where, kind), "%s: the debugger API panicked in the controller: %s", o.Desc, msg)
		return o
	}
	if r.Deadlock {
		o.addV("C19", "no-deadlock", "session-deadlock prog="+kind+" bp="+bpk, "%s: controller and debuggee are both blocked: %s", o.Desc, r.DeadlockInfo)
		return o
	}
	if r.BudgetHit {
		o.Inconclusive = "step budget exhausted"
		return o
	}
	for _, tk := range r.Tasks() {
		if tk.Panic != nil {
			o.addV("C19", "no-crash", "debuggee-panic prog="+kind+" bp="+bpk, "%s: task %s panicked: %v", o.Desc, tk.Name, tk.Panic)
			return o
		}
	}
	if !waited {
		o.addV("C19", "terminate", "no-terminate-event prog="+kind, "%s: the session never delivered a terminate event", o.Desc)
		return o
	}
	o.FaultFired["interrupt-requests"] += interrupts
	o.FaultFired["stops-with-full-stack-inspection"] += inspected
	if inspectPanic != nil {
		msg := fmt.Sprint(inspectPanic)
		if len(msg) > 200 {
			msg = msg[:200]
		}
		o.addV("C19", "no-crash", "inspection-panic prog="+kind, "%s: reading frames, scopes and variables at a stop panicked: %s", o.Desc, msg)
		return o
	}
	if terminated {
		// the session was ended by the client: what the program did up to then is a
		// prefix of what plain execution does, and the session ends with exactly
		// one terminate event
		o.FaultFired["session-ended-by-Terminate"]++
		if termGoIdx >= 0 {
			o.FaultFired["session-ended-by-Terminate-on-the-go-statement-line"]++
		}
		// (the OUTPUT is not compared: Terminate cancels the evaluation, and host
		// functions deferred by the cancelled frames still run while interpreted ones
		// do not — the C09 finding "deferred-host-call"; the marker trace is exact)
		var ticks, got, want []int
		for _, e := range sink.Events() {
			if e.Kind == host.KTick {
				ticks = append(ticks, e.Tag)
			}
		}
		if len(ticks) > len(ref.ticks) || fmt.Sprint(ticks) != fmt.Sprint(ref.ticks[:len(ticks)]) {
			o.addV("C19", "trace", "marker-trace-differs bp="+bpk+" after=Terminate", "%s: statements executed under the debugger %v are not a prefix of the plain trace %v", o.Desc, clipInts(ticks), clipInts(ref.ticks))
		} else if prog != nil && ticksAtSwitch < 0 {
			fl := map[int]bool{}
			for _, l := range validFuncs {
				fl[l] = true
			}
			for i, l := range ticks {
				if validLines[l] || fl[l] {
					want = append(want, l)
				}
				// (whether the statement after the last marker executed is unknown)
				if l == prog.MLRet && validLines[prog.MLHead] && i < len(ticks)-1 {
					want = append(want, prog.MLHead)
				}
			}
			for _, e := range events {
				if e.reason == interp.DebugBreak && e.line != prog.WorkerEntry {
					got = append(got, e.line)
				}
			}
			// the marker of the statement at which the program was stopped last may
			// or may not have executed
			if !(fmt.Sprint(got) == fmt.Sprint(want) || (len(got) == len(want)+1 && fmt.Sprint(got[:len(want)]) == fmt.Sprint(want))) {
				o.addV("C19", "breakpoints", "breakpoint-report-mismatch bp="+bpk+" after=Terminate", "%s: break events at lines %v, executed breakpoint lines %v", o.Desc, clipInts(got), clipInts(want))
			}
		}
		nterm := 0
		for _, e := range events {
			if e.reason == interp.DebugTerminate {
				nterm++
			}
		}
		if nterm != 1 || events[len(events)-1].reason != interp.DebugTerminate {
			o.addV("C19", "terminate", "terminate-event-count prog="+kind+" after=Terminate", "%s: %d terminate events, last event %v", o.Desc, nterm, events[len(events)-1].reason)
		}
		return o
	}
	if len(rejected) > 0 {
		o.addV("C19", "breakpoints", "breakpoint-request-rejected", "%s: line breakpoints on lines %v, each of which holds a statement, were reported not valid by SetBreakpoints", o.Desc, clipInts(rejected))
	}
	// (1) output, result, error
	out1, evs1 := out.String(), sink.Events()
	if started2 {
		out1, evs1 = out1[:out2Start], evs1[:ticks2Start]
	}
	if out1 != ref.out {
		o.addV("C19", "output", "output-differs prog="+kind+" bp="+bpk, "%s: output under the debugger %q, plain execution %q", o.Desc, clip(out1), clip(ref.out))
	}
	if es := errString(waitErr); es != ref.errStr {
		o.addV("C19", "result", "error-differs prog="+kind+" bp="+bpk, "%s: Wait returned error %s, plain execution %s", o.Desc, es, ref.errStr)
	}
	if rs := resString(waitRes); rs != ref.resStr {
		o.addV("C19", "result", "result-differs prog="+kind+" bp="+bpk, "%s: Wait returned %s, plain execution %s", o.Desc, rs, ref.resStr)
	}
	// (3) terminate exactly once and last
	nterm := 0
	for _, e := range events {
		if e.reason == interp.DebugTerminate {
			nterm++
		}
	}
	if nterm != 1 || len(events) == 0 || events[len(events)-1].reason != interp.DebugTerminate || !terminateSeenBeforeWait {
		o.addV("C19", "terminate", "terminate-event-count prog="+kind, "%s: %d terminate events, last event %v", o.Desc, nterm, events[len(events)-1].reason)
	}
	// (2) breakpoints reported in execution order (generated programs only: the
	// marker trace tells which lines executed)
	if prog != nil {
		fline := map[int]bool{}
		for _, l := range validFuncs {
			fline[l] = true
		}
		fline2 := map[int]bool{}
		for _, l := range validFuncs2 {
			fline2[l] = true
		}
		var want, got []int
		for i, l := range ref.ticks {
			// the break event at which the set was replaced belongs to the marker
			// that follows it (index ticksAtSwitch): still judged by the old set
			if ticksAtSwitch < 0 || i <= ticksAtSwitch {
				if validLines[l] || fline[l] {
					want = append(want, l)
				}
			} else if validLines2[l] || fline2[l] {
				want = append(want, l)
			}
			// the head of the multi-line statement executes (its assignment) between
			// the marker of the literal's return and the next marker
			if l == prog.MLRet {
				if ticksAtSwitch < 0 || i < ticksAtSwitch {
					if validLines[prog.MLHead] {
						want = append(want, prog.MLHead)
					}
				} else if validLines2[prog.MLHead] {
					want = append(want, prog.MLHead)
				}
			}
		}
		if ticksAtSwitch >= 0 {
			o.FaultFired["breakpoint-set-replaced-mid-session"]++
		}
		tailGot := map[int]int{}
		entryGot := 0
		for _, e := range events {
			if e.reason == interp.DebugBreak {
				if prog.Tail[e.line] {
					tailGot[e.line]++
					continue
				}
				if e.line == prog.WorkerEntry {
					// function breakpoint on the goroutine's function: reported by the
					// new goroutine, concurrently with its parent
					entryGot++
					continue
				}
				got = append(got, e.line)
			}
		}
		// the marker trace of the debugged run itself must equal the reference
		var ticks []int
		tailTicks := map[int]int{}
		for _, e := range evs1 {
			if e.Kind == host.KTick {
				if prog.Tail[e.Tag] {
					tailTicks[e.Tag]++
					continue
				}
				ticks = append(ticks, e.Tag)
			}
		}
		if fmt.Sprint(ticks) != fmt.Sprint(ref.ticks) {
			o.addV("C19", "trace", "marker-trace-differs bp="+bpk, "%s: statements executed under the debugger %v, plainly %v", o.Desc, clipInts(ticks), clipInts(ref.ticks))
		} else if fmt.Sprint(got) != fmt.Sprint(want) {
			o.addV("C19", "breakpoints", "breakpoint-report-mismatch bp="+bpk+" "+bpDiff(got, want), "%s: break events at lines %v, executed breakpoint lines %v", o.Desc, clipInts(got), clipInts(want))
		} else if wantEntry := map[bool]int{true: ref.workers}[fline[prog.WorkerEntry] && ticksAtSwitch < 0]; (fline[prog.WorkerEntry] || entryGot > 0) && ticksAtSwitch < 0 && entryGot != wantEntry {
			o.addV("C19", "breakpoints", "breakpoint-report-mismatch bp="+bpk+" goroutine-entry", "%s: %d break events at the entry of the goroutine's function (line %d), %d goroutines were started with a function breakpoint on it", o.Desc, entryGot, prog.WorkerEntry, wantEntry)
		} else if len(prog.Tail) > 0 {
			// the part of each goroutine which runs concurrently with main: the
			// session ends only when it is over, every line of it runs once per
			// goroutine, and its breakpoints are reported
			for l := range prog.Tail {
				if tailTicks[l] != ref.workers {
					o.addV("C19", "trace", "goroutine-tail-trace-differs bp="+bpk, "%s: line %d of the goroutines' tail executed %d times before the terminate event, %d goroutines were started", o.Desc, l, tailTicks[l], ref.workers)
					break
				}
				wantN := 0
				if validLines[l] || fline[l] {
					wantN = ref.workers
				}
				if tailGot[l] != wantN {
					o.addV("C19", "breakpoints", "breakpoint-report-mismatch bp="+bpk+" goroutine-tail", "%s: %d break events at line %d of the goroutines' tail, %d expected", o.Desc, tailGot[l], l, wantN)
					break
				}
			}
			if ref.workers > 0 {
				o.FaultFired["goroutine-tails-run-concurrently-with-main"] += ref.workers
			}
		}
		o.FaultFired["breakpoints-hit"] += len(got)
	}
	// (4) a second session on the same interpreter behaves like the first
	if started2 && len(o.Violations) == 0 {
		o.FaultFired["second-session-on-the-same-interpreter"]++
		if overlap2 {
			o.FaultFired["second-session-started-before-the-first-one's-goroutine-ended"]++
		}
		if !waited2 {
			o.addV("C19", "terminate", "no-terminate-event prog="+kind+" session=second", "%s: the second session never delivered a terminate event", o.Desc)
			return o
		}
		if o2 := out.String()[out2Start:]; o2 != ref2.out {
			o.addV("C19", "output", "output-differs prog="+kind+" bp="+bpk+" session=second", "%s: output of the second session %q, second plain execution %q", o.Desc, clip(o2), clip(ref2.out))
		}
		if es := errString(wait2Err); es != ref2.errStr {
			o.addV("C19", "result", "error-differs prog="+kind+" bp="+bpk+" session=second", "%s: Wait of the second session returned error %s, second plain execution %s", o.Desc, es, ref2.errStr)
		}
		if rs := resString(wait2Res); rs != ref2.resStr {
			o.addV("C19", "result", "result-differs prog="+kind+" bp="+bpk+" session=second", "%s: Wait of the second session returned %s, second plain execution %s", o.Desc, rs, ref2.resStr)
		}
		var ticks2, got2, want2 []int
		for _, e := range sink.Events()[ticks2Start:] {
			if e.Kind == host.KTick {
				ticks2 = append(ticks2, e.Tag)
			}
		}
		// SetBreakpoints replaces the breakpoints of the kinds it is given requests
		// for (line / function, as the two requests of the debug adapter protocol
		// do) and the flags live in the program: function breakpoints installed by
		// the first session's replacement set stay when the second session asks
		// for line breakpoints only.
		funcs2 := valid2Funcs
		if len(funcBP) == 0 && ticksAtSwitch >= 0 {
			funcs2 = map[int]bool{}
			for _, l := range validFuncs2 {
				funcs2[l] = true
			}
		}
		for _, l := range ref2.ticks {
			if valid2Lines[l] || funcs2[l] {
				want2 = append(want2, l)
			}
			if valid2Lines[l] && funcs2[l] {
				// function entry and first statement are two breakpoints
				want2 = append(want2, l)
			}
			if l == prog.MLRet && valid2Lines[prog.MLHead] {
				want2 = append(want2, prog.MLHead)
			}
		}
		nterm2 := 0
		for _, e := range events2 {
			switch e.reason {
			case interp.DebugBreak:
				if e.line != prog.WorkerEntry {
					got2 = append(got2, e.line)
				}
			case interp.DebugTerminate:
				nterm2++
			}
		}
		if fmt.Sprint(ticks2) != fmt.Sprint(ref2.ticks) {
			o.addV("C19", "trace", "marker-trace-differs bp="+bpk+" session=second", "%s: statements executed by the second session %v, by a second plain execution %v", o.Desc, clipInts(ticks2), clipInts(ref2.ticks))
		} else if fmt.Sprint(got2) != fmt.Sprint(want2) {
			o.addV("C19", "breakpoints", "breakpoint-report-mismatch bp="+bpk+" "+bpDiff(got2, want2)+" session=second", "%s: break events of the second session at lines %v, executed breakpoint lines %v", o.Desc, clipInts(got2), clipInts(want2))
		}
		if nterm2 != 1 || events2[len(events2)-1].reason != interp.DebugTerminate {
			o.addV("C19", "terminate", "terminate-event-count prog="+kind+" session=second", "%s: %d terminate events in the second session", o.Desc, nterm2)
		}
	}
	return o
}

func bpDiff(got, want []int) string {
	switch {
	case len(got) < len(want):
		return "missed"
	case len(got) > len(want):
		return "extra"
	}
	return "order"
}

func clip(s string) string {
	if len(s) > 200 {
		return s[:200] + "..."
	}
	return s
}

func clipInts(s []int) string {
	if len(s) > 40 {
		return fmt.Sprint(s[:40]) + "..."
	}
	return fmt.Sprint(s)
}

func init() {
	Props["C19"] = &PropDef{ID: "C19", Run: RunC19, Case: func(t *testing.T, c *CaseCtx, idx int) {
		c.Emit(RunC19(t, NewTape(Mix(c.Job.Seed, uint64(idx), 19))))
	}}
}
