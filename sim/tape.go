package sim

// Tape is the single source of every choice of a run: template, parameters,
// hot sites, scheduling decisions, fault instants. In exploration it replays
// Prefix and then continues from a SplitMix64 stream; in replay the stream is
// absent and an exhausted tape yields 0, which is always the simplest choice.
// Every draw is recorded in Drawn; Drawn is the replay of the run.
//
// A Tape is used by one goroutine at a time (the generator before the run, the
// scheduler during it); all methods are race-invisible.
type Tape struct {
	Prefix []int
	pos    int
	rng    uint64
	hasRng bool
	Drawn  []int
	n      int
	// Forced overrides positions (index -> value) of the recorded stream; used
	// by the k-sweep to replace the cancellation slot.
	Forced map[int]int
}

const tapeMax = 1 << 16

// NewTape returns a tape backed by a PRNG.
func NewTape(seed uint64) *Tape {
	return &Tape{rng: seed, hasRng: true, Drawn: make([]int, 0, 256)}
}

// ReplayTape returns a tape backed by a recorded list only.
func ReplayTape(rec []int) *Tape {
	return &Tape{Prefix: rec, Drawn: make([]int, 0, len(rec)+16)}
}

// PrefixTape replays rec and then continues from a PRNG.
func PrefixTape(rec []int, seed uint64) *Tape {
	return &Tape{Prefix: rec, rng: seed, hasRng: true, Drawn: make([]int, 0, len(rec)+256)}
}

func splitmix(x *uint64) uint64 {
	*x += 0x9e3779b97f4a7c15
	z := *x
	z = (z ^ (z >> 30)) * 0xbf58476d1ce4e5b9
	z = (z ^ (z >> 27)) * 0x94d049bb133111eb
	return z ^ (z >> 31)
}

// Mix derives a seed from parts.
func Mix(parts ...uint64) uint64 {
	var s uint64 = 0x1234567
	for _, p := range parts {
		s ^= p + 0x9e3779b97f4a7c15 + (s << 6) + (s >> 2)
		splitmix(&s)
	}
	return splitmix(&s)
}

// Choose returns a value in [0,n). n<=1 consumes nothing.
//
//go:norace
func (t *Tape) Choose(n int) int {
	if n <= 1 {
		return 0
	}
	var v int
	idx := t.n
	switch {
	case t.pos < len(t.Prefix):
		v = t.Prefix[t.pos]
		t.pos++
		if v < 0 {
			v = -v
		}
		v %= n
	case t.hasRng:
		v = int(splitmix(&t.rng) % uint64(n))
	default:
		v = 0
	}
	if f, ok := t.Forced[idx]; ok {
		v = f % n
	}
	t.n++
	if len(t.Drawn) < tapeMax {
		t.Drawn = append(t.Drawn, v)
	}
	return v
}

// Bias returns true with probability num/den; 0 (false) is the simple choice.
//
//go:norace
func (t *Tape) Bias(num, den int) bool {
	return t.Choose(den) >= den-num
}

// Pos is the number of draws made so far.
func (t *Tape) Pos() int { return t.n }
