package sim

import (
	"context"
	"fmt"
	"os"
	"reflect"
	"strings"
	"testing"

	"github.com/traefik/yaegi/interp"
	"verif/sim/host"
)

// C10: a cancelled evaluation does not damage earlier definitions (DESIGN 4, C10).
// One client task drives a history define* ; (use | cancelled-eval)* on one
// interpreter; leftovers of cancelled evaluations stay under the scheduler and
// are interleaved with later steps.

const (
	dFunc = iota
	dMethod
	dClosureVar
	dCounterClosure
	dMethodValue
	dChanFunc
	dDeferFunc
	dGlobalCounter
	dGlobalMap
	dCallChain
	dLockedFunc
	dChanState
	dCallbackFunc
	dGeneric
	dIfaceValue
	dOnce
	dStructFunc
	nDefKinds
)

var defKindName = [...]string{"named-func", "method", "closure-var", "counter-closure", "method-value", "chan-func", "defer-func", "global-counter", "global-map", "call-chain", "locked-func", "chan-state", "callback-func", "generic-method", "iface-value", "once-init", "struct-func-field"}

type c10Def struct {
	kind    int
	name    string // expression to call: F0, V1.M, C2 ...
	a, b    int
	state   int  // captured counter
	hostFn  any  // exported wrapper held by the host (func(int) int)
	hostOK  bool
	viaCtx  bool // defined through EvalWithContext
	desync  bool // a use of a stateful definition went wrong: the model no longer knows its state
	prog    *interp.Program // `callee(3)` compiled right after the definition (compile once, execute per request)
}

func (d *c10Def) src(j int) string {
	switch d.kind {
	case dFunc:
		return fmt.Sprintf("func F%d(x int) int { y := x * %d; return y + %d }", j, d.a, d.b)
	case dMethod:
		return fmt.Sprintf("type T%d struct{ k int }\nfunc (t T%d) M(x int) int { return x + t.k*%d }\nvar V%d = T%d{k: %d}", j, j, d.a, j, j, d.b)
	case dClosureVar:
		return fmt.Sprintf("var C%d = func(x int) int { y := x * %d; return y + %d }", j, d.a, d.b)
	case dCounterClosure:
		return fmt.Sprintf("func mk%d() func(int) int { c := %d; return func(d int) int { c += d; return c * %d } }\nvar N%d = mk%d()", j, d.b, d.a, j, j)
	case dMethodValue:
		return fmt.Sprintf("type U%d struct{ k int }\nfunc (u *U%d) M(x int) int { return x*%d + u.k }\nvar W%d = &U%d{k: %d}\nvar MV%d = W%d.M", j, j, d.a, j, j, d.b, j, j)
	case dChanFunc:
		return fmt.Sprintf("func G%d(x int) int { ch := make(chan int); go func() { ch <- x * %d }(); return <-ch + %d }", j, d.a, d.b)
	case dDeferFunc:
		return fmt.Sprintf("func D%d(x int) (r int) { defer func() { r += %d }(); r = x * %d; return r }", j, d.b, d.a)
	case dGlobalCounter:
		return fmt.Sprintf("var gc%d = %d\nfunc Inc%d(d int) int { gc%d += d; return gc%d * %d }\nfunc keep%d(v int) int { for i := 0; i < 1000000; i++ { host.Tick(7) }; return v }", j, d.b, j, j, j, d.a, j)
	case dGlobalMap:
		return fmt.Sprintf("var gm%d = map[int]int{0: %d}\nvar gs%d []int\nfunc Put%d(v int) int { gm%d[len(gm%d)] = v; gs%d = append(gs%d, v); return len(gm%d)*%d + len(gs%d) + gm%d[0] }", j, d.b, j, j, j, j, j, j, j, d.a, j, j)
	case dLockedFunc:
		return fmt.Sprintf("var lm%d sync.Mutex\nvar lw%d sync.WaitGroup\nfunc L%d(x int) int { host.Tick(%d); lm%d.Lock(); defer lm%d.Unlock(); lw%d.Add(1); defer lw%d.Done(); host.Tick(%d); s := 0; for i := 0; i < 12; i++ { s += i }; return x*%d + %d + s*0 }", j, j, j, 6100+j, j, j, j, j, 6110+j, d.a, d.b)
	case dChanState:
		// a package-level channel used through range and select only (the channel
		// operations that are cancellable however the code was compiled)
		return fmt.Sprintf("var q%d = make(chan int, 4)\nfunc Drain%d() int { n := 0; for v := range q%d { n += v }; return n }\nfunc PutGet%d(x int) int { select { case q%d <- x * %d: default: return -2 }; select { case v := <-q%d: return v + %d; default: return -1 } }", j, j, j, j, j, d.a, j, d.b)
	case dCallbackFunc:
		// a named function handed to a host function as a callback from inside
		// another function: the host-callable wrapper is made in that call's frame
		return fmt.Sprintf("func up%d(r rune) rune { return r + %d }\nfunc CB%d(x int) int { s := strings.Map(up%d, \"ab\"); return x*%d + %d + (int(s[0]) - 97 - %d) + (int(s[1]) - 98 - %d) }", j, d.a, j, j, d.a, d.b, d.a, d.a)
	case dGeneric:
		// a generic type with methods; GI uses the instance St[int]; other
		// instances are first mentioned by later evaluations (genericLit)
		return fmt.Sprintf("type St%d[T any] struct{ xs []T }\nfunc (s *St%d[T]) Push(v T) { s.xs = append(s.xs, v) }\nfunc (s *St%d[T]) Len() int { return len(s.xs) }\nfunc (s *St%d[T]) Top() T { return s.xs[len(s.xs)-1] }\nfunc GI%d(x int) int { s := &St%d[int]{}; s.Push(x); s.Push(x * %d); return s.Top() + %d + (s.Len() - 2) }", j, j, j, j, j, j, d.a, d.b)
	case dIfaceValue:
		// a package-level interface value holding an interpreted type
		return fmt.Sprintf("type I%d interface{ M(int) int }\ntype IT%d struct{ k int }\nfunc (t IT%d) M(x int) int { return x*%d + t.k }\nvar iv%d I%d = IT%d{k: %d}\nfunc IV%d(x int) int { return iv%d.M(x) }", j, j, j, d.a, j, j, j, d.b, j, j)
	case dOnce:
		// lazily built state behind sync.Once
		return fmt.Sprintf("var on%d sync.Once\nvar tb%d []int\nfunc ON%d(x int) int { on%d.Do(func() { for i := 0; i < 4; i++ { tb%d = append(tb%d, i*%d) } }); return tb%d[1]*x + %d + (len(tb%d) - 4) }", j, j, j, j, j, j, d.a, j, d.b, j)
	case dStructFunc:
		// a named function stored in a field of a package-level struct
		return fmt.Sprintf("func sf%d(x int) int { return x*%d + %d }\ntype SH%d struct{ f func(int) int }\nvar sh%d = SH%d{f: sf%d}\nfunc SF%d(x int) int { return sh%d.f(x) }", j, d.a, d.b, j, j, j, j, j, j)
	case dCallChain:
		return fmt.Sprintf("func ca%d(x int) int { return cb%d(x) + %d }\nfunc cb%d(x int) int { return cc%d(x) * %d }\nfunc cc%d(x int) int { if x > 100 { return x }; return x + 1 }", j, j, d.b, j, j, d.a, j)
	}
	return ""
}

func (d *c10Def) callee(j int) string {
	switch d.kind {
	case dFunc:
		return fmt.Sprintf("F%d", j)
	case dMethod:
		return fmt.Sprintf("V%d.M", j)
	case dClosureVar:
		return fmt.Sprintf("C%d", j)
	case dCounterClosure:
		return fmt.Sprintf("N%d", j)
	case dMethodValue:
		return fmt.Sprintf("MV%d", j)
	case dChanFunc:
		return fmt.Sprintf("G%d", j)
	case dDeferFunc:
		return fmt.Sprintf("D%d", j)
	case dGlobalCounter:
		return fmt.Sprintf("Inc%d", j)
	case dGlobalMap:
		return fmt.Sprintf("Put%d", j)
	case dCallChain:
		return fmt.Sprintf("ca%d", j)
	case dLockedFunc:
		return fmt.Sprintf("L%d", j)
	case dChanState:
		return fmt.Sprintf("PutGet%d", j)
	case dCallbackFunc:
		return fmt.Sprintf("CB%d", j)
	case dGeneric:
		return fmt.Sprintf("GI%d", j)
	case dIfaceValue:
		return fmt.Sprintf("IV%d", j)
	case dOnce:
		return fmt.Sprintf("ON%d", j)
	case dStructFunc:
		return fmt.Sprintf("SF%d", j)
	}
	return ""
}

// genericLit is a function literal which uses an instance of the generic type of
// definition j that no earlier evaluation may have mentioned (sel picks the type
// argument); it computes the same function as GI.
func (d *c10Def) genericLit(j, sel int) string {
	ty, v1, v2 := "string", `"p"`, `"q"`
	switch sel % 3 {
	case 1:
		ty, v1, v2 = "float64", "1.5", "2.5"
	case 2:
		ty, v1, v2 = "bool", "true", "false"
	}
	return fmt.Sprintf("func(x int) int { s := &St%d[%s]{}; s.Push(%s); s.Push(%s); if s.Top() != %s { return -1 }; return x*%d + %d + (s.Len() - 2) }", j, ty, v1, v2, v2, d.a, d.b)
}

// model applies one call and returns the expected result.
func (d *c10Def) model(x int) int {
	switch d.kind {
	case dFunc, dClosureVar, dChanFunc, dLockedFunc, dChanState, dCallbackFunc, dGeneric, dIfaceValue, dOnce, dStructFunc:
		return x*d.a + d.b
	case dMethod:
		return x + d.b*d.a
	case dCounterClosure:
		d.state += x
		return d.state * d.a
	case dMethodValue:
		return x*d.a + d.b
	case dDeferFunc:
		return x*d.a + d.b
	case dGlobalCounter:
		d.state += x
		return d.state * d.a
	case dGlobalMap:
		d.state++ // number of Put calls
		return (1+d.state)*d.a + d.state + d.b
	case dCallChain:
		return (x+1)*d.a + d.b
	}
	return 0
}

const (
	xBusy = iota
	xBlocked
	xExpired
	xGoroutines
	xCallsDef
	xSelect
	xHostCall
	xDeclares
	nCancelKinds
)

var cancelKindName = [...]string{"busy-loop", "blocked-channel", "expired-context", "goroutines", "calls-definition", "blocked-select", "blocked-host-call", "declares-then-loops"}

type c10Step struct {
	Kind string // use-eval, use-ctx, use-host, cancel
	Def  int
	Arg  int
	CK   int
	K    int
}

// RunC10 executes one history.
func RunC10(t *testing.T, tape *Tape) *Outcome {
	o := &Outcome{Detail: map[string]any{}, FaultFired: map[string]int{}}
	ndefs := 1 + tape.Choose(4)
	defs := make([]*c10Def, ndefs)
	// how the session defines things: always through Eval (no context is seen
	// before the first cancellable evaluation), always through EvalWithContext, or mixed
	style := tape.Choose(3)
	for j := range defs {
		defs[j] = &c10Def{kind: tape.Choose(nDefKinds), a: 2 + tape.Choose(5), b: 1 + tape.Choose(9), viaCtx: style == 1 || (style == 2 && tape.Choose(2) == 1)}
		if defs[j].kind == dCounterClosure || defs[j].kind == dGlobalCounter {
			defs[j].state = defs[j].b
		}
	}
	nsteps := 2 + tape.Choose(9)
	var steps []c10Step
	// half of the steps concern one definition of the history (a cancelled
	// evaluation that touches a definition matters to later uses of THAT one)
	focus := tape.Choose(ndefs)
	pick := func() int {
		if tape.Choose(2) == 0 {
			return focus
		}
		return tape.Choose(ndefs)
	}
	for i := 0; i < nsteps; i++ {
		switch tape.Choose(5) {
		case 0, 1:
			steps = append(steps, c10Step{Kind: "cancel", CK: tape.Choose(nCancelKinds), K: 1 + tape.Choose(60), Def: pick()})
		case 2:
			steps = append(steps, c10Step{Kind: "use-eval", Def: pick(), Arg: 1 + tape.Choose(9), K: tape.Choose(6)})
		case 3:
			steps = append(steps, c10Step{Kind: "use-ctx", Def: pick(), Arg: 1 + tape.Choose(9), K: tape.Choose(6)})
		case 4:
			if tape.Choose(3) == 2 {
				// the program compiled at definition time, executed with or without a context
				steps = append(steps, c10Step{Kind: [...]string{"use-prog", "use-prog-ctx"}[tape.Choose(2)], Def: pick(), Arg: 3})
			} else {
				steps = append(steps, c10Step{Kind: "use-host", Def: pick(), Arg: 1 + tape.Choose(9)})
			}
		}
	}
	var hist []string
	for j, d := range defs {
		hist = append(hist, fmt.Sprintf("define %s %s(a=%d,b=%d,ctx=%v)", defKindName[d.kind], d.callee(j), d.a, d.b, d.viaCtx))
	}
	for _, s := range steps {
		if s.Kind == "cancel" {
			hist = append(hist, fmt.Sprintf("cancel %s k=%d", cancelKindName[s.CK], s.K))
		} else {
			alt := ""
			if defs[s.Def].kind == dGeneric && s.K%2 == 1 {
				alt = fmt.Sprintf(" [through a literal using type argument %d]", (s.K/2)%3)
			}
			hist = append(hist, fmt.Sprintf("%s %s(%d)%s", s.Kind, defs[s.Def].callee(s.Def), s.Arg, alt))
		}
	}
	o.Desc = strings.Join(hist, "; ")
	o.Detail["history"] = hist
	cfg := SchedCfg(tape, false)
	cfg.MaxOps = 20000
	cfg.MaxDecisions = 12000

	type mismatch struct {
		step, def int
		via       string
		got       string
		want      int
		after     string
		afterD    string
	}
	var mism []mismatch
	var setupErr string
	cancels, usesAfterCancel := 0, 0
	lockWindows := 0
	opsAtReturn := map[*Task]int{} // leftovers of cancelled evaluations: operations started when their call returned
	var sinkC10 *host.Sink
	var i1fail []string
	drainLeft := map[int][]*Task{} // chan-state definition -> leftovers of cancelled evaluations ranging over its channel
	res := Simulate(t, tape, cfg, func(r *Run) {
		sinkC10 = r.NewSink(65536, nil)
		host.Cur.Store(sinkC10)
		r.Spawn("c0", func() {
			it := NewInterpFS(nil)
			if _, err := it.Eval(`import "sync"`); err != nil {
				setupErr = "import of sync failed: " + err.Error()
				return
			}
			if _, err := it.Eval(`import "strings"`); err != nil {
				setupErr = "import of strings failed: " + err.Error()
				return
			}
			if _, err := it.Eval(`import "verif/sim/host"`); err != nil {
				setupErr = "import of the host package failed: " + err.Error()
				return
			}
			// a program compiled BEFORE the definitions exist and executed (and
			// cancelled) after them: what Compile recorded about the interpreter's
			// global state is stale by then
			preBusy, _ := it.Compile("for { host.Tick(1) }")
			for j, d := range defs {
				var err error
				if d.viaCtx {
					_, err = it.EvalWithContext(context.Background(), d.src(j))
				} else {
					_, err = it.Eval(d.src(j))
				}
				if err != nil {
					setupErr = fmt.Sprintf("definition %d (%s) failed: %v", j, defKindName[d.kind], err)
					return
				}
				if d.kind == dOnce {
					// built now: a cancellation landing inside the lazy initialisation
					// leaves it half done for good (sync.Once counts a cut-short
					// function as done), which is inherent to stopping after the
					// operation in flight and not what is judged here
					if _, err := it.Eval(d.callee(j) + "(1)"); err != nil {
						setupErr = fmt.Sprintf("warm-up of definition %d failed: %v", j, err)
						return
					}
				}
				if p, err := it.Compile(fmt.Sprintf("%s(3)", d.callee(j))); err == nil {
					d.prog = p
				}
				v, err := it.Eval(d.callee(j))
				if err == nil && v.IsValid() && v.Kind() == reflect.Func {
					if fn, ok := v.Interface().(func(int) int); ok {
						d.hostFn, d.hostOK = fn, true
					}
				}
			}
			after := "none"
			afterDetail := "none"
			// host-held wrappers are dead from a cancellation until the next
			// evaluation refreshes the root frame's generation (recorded finding): a
			// direct host call that fails AFTER such an evaluation is something else
			evalSinceCancel := false
			for si, s := range steps {
				d := defs[s.Def]
				switch s.Kind {
				case "use-eval", "use-ctx":
					if d.desync {
						continue
					}
					want := d.model(s.Arg)
					src := fmt.Sprintf("%s(%d)", d.callee(s.Def), s.Arg)
					if d.kind == dGeneric && s.K%2 == 1 {
						// (through a variable: the value Eval returns for a bare call of
						// a function literal is not the call's result, which is not C10's
						// business)
						src = fmt.Sprintf("gr%d := %s(%d); gr%d", si, d.genericLit(s.Def, s.K/2), s.Arg, si)
					}
					var v reflect.Value
					var err error
					if s.Kind == "use-ctx" {
						v, err = it.EvalWithContext(context.Background(), src)
					} else {
						v, err = it.Eval(src)
					}
					got := ""
					switch {
					case err != nil:
						got = "error: " + err.Error()
					case !v.IsValid() || !v.CanInt():
						got = fmt.Sprintf("non-int result %v", v)
					case int(v.Int()) != want:
						got = fmt.Sprint(v.Int())
					}
					if got != "" {
						mism = append(mism, mismatch{si, s.Def, s.Kind, got, want, after, afterDetail})
						d.desync = true
					}
					evalSinceCancel = true
					if cancels > 0 {
						usesAfterCancel++
					}
				case "use-prog", "use-prog-ctx":
					if d.prog == nil || d.desync {
						continue
					}
					want := d.model(3)
					var v reflect.Value
					var err error
					if s.Kind == "use-prog-ctx" {
						v, err = it.ExecuteWithContext(context.Background(), d.prog)
					} else {
						v, err = it.Execute(d.prog)
					}
					got := ""
					switch {
					case err != nil:
						got = "error: " + err.Error()
					case !v.IsValid() || !v.CanInt():
						got = fmt.Sprintf("non-int result %v", v)
					case int(v.Int()) != want:
						got = fmt.Sprint(v.Int())
					}
					if got != "" {
						mism = append(mism, mismatch{si, s.Def, s.Kind, got, want, after, afterDetail})
						d.desync = true
					}
					evalSinceCancel = true
					if cancels > 0 {
						usesAfterCancel++
					}
				case "use-host":
					if !d.hostOK || d.desync {
						continue
					}
					want := d.model(s.Arg)
					got := callHostFn(d.hostFn.(func(int) int), s.Arg)
					if got != fmt.Sprint(want) {
						aft := after
						if after == "cancel" && evalSinceCancel {
							aft = "cancel+evaluation"
						}
						mism = append(mism, mismatch{si, s.Def, "use-host", got, want, aft, afterDetail})
						d.desync = true
					}
					if cancels > 0 {
						usesAfterCancel++
					}
				case "cancel":
					ctx, cancel := context.WithCancel(context.Background())
					src := ""
					target := -1 // the definition a calls-definition step really calls
					switch s.CK {
					case xBusy:
						src = "for { host.Tick(1) }"
						if d.kind == dGlobalCounter {
							// a long call whose result would be assigned to the definition's
							// variable: cut short, it must leave the variable alone
							src = fmt.Sprintf("gc%d = keep%d(gc%d)", s.Def, s.Def, s.Def)
						}
					case xBlocked:
						src = "cc := make(chan int); <-cc"
						if d.kind == dGlobalCounter {
							// blocked in a receive whose value would be assigned to the
							// definition's package-level variable
							src = fmt.Sprintf("rcv := make(chan int); gc%d = <-rcv", s.Def)
						}
						if d.kind == dChanState {
							// blocked ranging over the (empty) channel of a definition
							src = fmt.Sprintf("host.Tick(Drain%d())", s.Def)
							target = s.Def
						}
					case xExpired:
						// never started; what its compilation did (instantiating generic
						// types, resolving the definitions) must not harm later uses
						src = fmt.Sprintf("for { host.Tick(%s(2)) }", d.callee(s.Def))
						if d.kind == dGeneric {
							src = fmt.Sprintf("for { host.Tick(%s(2)) }", d.genericLit(s.Def, s.K))
						}
						cancel()
					case xGoroutines:
						src = "go func() { for { host.Tick(3) } }(); go func() { c2 := make(chan int); c2 <- 1 }(); select {}"
					case xCallsDef:
						callee := d.callee(s.Def)
						target = s.Def
						if d.kind == dCounterClosure || d.kind == dGlobalCounter || d.kind == dGlobalMap {
							// a call that is cut short must not be counted by the model: use
							// a definition without state for this kind of step
							callee = ""
							target = -1
							for j2, d2 := range defs {
								if d2.kind != dCounterClosure && d2.kind != dGlobalCounter && d2.kind != dGlobalMap {
									callee = d2.callee(j2)
									target = j2
									break
								}
							}
						}
						if callee == "" {
							src = "for { host.Tick(4) }"
						} else if target >= 0 && defs[target].kind == dChanState {
							// blocks for ever ranging over the definition's (empty) channel
							src = fmt.Sprintf("host.Tick(Drain%d())", target)
						} else {
							src = fmt.Sprintf("for { host.Tick(%s(1)) }", callee)
						}
					case xHostCall:
						// a native call made by a top-level statement, which never returns
						src = "host.Park()"
					case xDeclares:
						// the cancelled evaluation itself declares a variable, a function, a
						// type with a method and shadows the focus definition's entry point
						// in a block, before it loops: what it leaves in the symbol tables,
						// scopes and frame slots must not disturb the earlier definitions
						u := fmt.Sprintf("%d_%d", s.Def, si)
						src = fmt.Sprintf("var nv%s = 7\nfunc nf%s(x int) int { return x + nv%s }\ntype nt%s struct{ a int }\nfunc (t nt%s) m() int { return t.a + 1 }\n{\n\tnv%s := 3\n\thost.Tick(nv%s)\n}\nfor { host.Tick(nf%s(nt%s{1}.m())) }", u, u, u, u, u, u, u, u, u)
					case xSelect:
						src = "s1 := make(chan int); s2 := make(chan int); select { case <-s1: case s2 <- 1: }"
					}
					if s.CK != xExpired {
						r.Rearm(cancel, int64(s.K))
					}
					var err error
					if s.CK == xBusy && d.kind != dGlobalCounter && preBusy != nil && s.K%2 == 0 {
						o.FaultFired["cancelled-execution-of-a-program-compiled-before-the-definitions"]++
						_, err = it.ExecuteWithContext(ctx, preBusy)
					} else {
						_, err = it.EvalWithContext(ctx, src)
					}
					r.Disarm()
					cancel()
					cancels++
					for _, tk := range r.Tasks() {
						if !tk.Client && !tk.Exited() {
							if _, seen := opsAtReturn[tk]; !seen {
								opsAtReturn[tk] = tk.Ops
							}
						}
					}
					if target >= 0 && defs[target].kind == dChanState {
						for _, tk := range r.Tasks() {
							if !tk.Client && !tk.Exited() {
								drainLeft[target] = append(drainLeft[target], tk)
							}
						}
					}
					if s.CK == xCallsDef && target >= 0 && defs[target].kind == dLockedFunc {
						d := defs[target]
						// A cancellation between Lock and the registration of the deferred
						// Unlock leaves the mutex locked for good: that is inherent to
						// stopping after the operation in flight, not what is judged here.
						// If the last marker of L is the one before Lock, L is not used again.
						last := 0
						for _, e := range sinkC10.Events() {
							if e.Kind == host.KTick && (e.Tag == 6100+target || e.Tag == 6110+target) {
								last = e.Tag
							}
						}
						if last == 6100+target {
							d.desync = true
							lockWindows++
						}
					}
					if err != context.Canceled {
						i1fail = append(i1fail, fmt.Sprintf("step %d (%s): EvalWithContext returned %v", si, cancelKindName[s.CK], err))
					}
					after = "cancel"
					evalSinceCancel = false
					afterDetail = cancelKindName[s.CK]
				}
			}
			r.Finish2()
		})
	}, nil)
	r := res.Run
	fillOutcome(o, &res)
	if res.HarnessErr != "" {
		o.Inconclusive = "harness panic: " + res.HarnessErr
		return o
	}
	if setupErr != "" {
		o.Inconclusive = setupErr
		return o
	}
	for _, tk := range r.Tasks() {
		if tk.Client && tk.Panic != nil {
			o.Inconclusive = fmt.Sprintf("client task panicked: %v", tk.Panic)
			return o
		}
	}
	o.NonTrivial = cancels > 0 && usesAfterCancel > 0
	o.FaultFired["cancelled-evals"] += cancels
	if os.Getenv("VERIF_DEBUG") != "" && sinkC10 != nil {
		var evs []string
		for _, e := range sinkC10.Events() {
			evs = append(evs, fmt.Sprintf("t%d:%d@%d", e.Task, e.Tag, e.Seq))
		}
		o.Detail["events"] = evs
	}
	o.FaultFired["uses-after-a-cancel"] += usesAfterCancel
	o.FaultFired["cancel-between-lock-and-defer-unlock (not judged)"] += lockWindows
	// Known finding of C09 (the code of a cancelled evaluation running in the
	// shared root frame resumes when the next evaluation starts at once): when it
	// happened in this history, the later steps ran concurrently with resumed
	// code (which may call definitions, hold their locks ...). The history is
	// reported under that finding only; what else went wrong may be a consequence.
	for tk, n := range opsAtReturn {
		if tk.Ops-n > 1 {
			o.addV("C10", "isolation", "history-disturbed-by-resumed-cancelled-code",
				"task %s of a cancelled evaluation started %d more operations after its call had returned (the next evaluation refreshed the root frame's run id): later steps ran concurrently with it", tk.Name, tk.Ops-n)
			return o
		}
	}
	if r.Deadlock {
		o.addV("C10", "progress", "history-stuck", "the history did not complete: %s", r.DeadlockInfo)
		return o
	}
	if r.BudgetHit {
		o.Inconclusive = "step budget exhausted"
		return o
	}
	for _, m := range mism {
		d := defs[m.def]
		if d.kind == dChanState && m.got == "-1" {
			// The one operation a cancelled evaluation had in flight (C09 allows
			// it) may be the receive of `for v := range q`: a task that had not yet
			// started that operation when its call returned starts it afterwards and
			// may take the value the use has just put. Inherent to stopping after the
			// operation in flight, like the lock window: not judged. (A task parked
			// IN the receive when the call returned started nothing afterwards and
			// is judged.)
			inflight := false
			for _, tk := range drainLeft[m.def] {
				if tk.Ops-opsAtReturn[tk] == 1 {
					inflight = true
				}
			}
			if inflight {
				o.FaultFired["in-flight receive of a cancelled evaluation took the value (not judged)"]++
				continue
			}
		}
		o.addV("C10", "use", fmt.Sprintf("use-mismatch kind=%s via=%s after=%s", defKindName[d.kind], m.via, m.after),
			"step %d: %s of %s gave %s, the model says %d (definition made %s; last cancelled evaluation before this use: %s)",
			m.step, m.via, d.callee(m.def), m.got, m.want, map[bool]string{true: "through EvalWithContext", false: "through Eval"}[d.viaCtx], m.afterD)
	}
	_ = i1fail // C10 does not re-judge C09: recorded only
	if len(i1fail) > 0 {
		o.Detail["c09_i1_notes"] = i1fail
	}
	return o
}

func callHostFn(fn func(int) int, x int) (got string) {
	defer func() {
		if p := recover(); p != nil {
			if _, ok := p.(abortSentinel); ok {
				panic(p)
			}
			got = fmt.Sprintf("panic: %v", p)
		}
	}()
	return fmt.Sprint(fn(x))
}

var _ = interp.Options{}

func init() {
	Props["C10"] = &PropDef{ID: "C10", Run: RunC10, Case: func(t *testing.T, c *CaseCtx, idx int) {
		c.Emit(RunC10(t, NewTape(Mix(c.Job.Seed, uint64(idx), 10))))
	}}
}
