// Command weave instruments the interp package of a yaegi tree for the
// deterministic simulator. It reads <repo>/interp/*.go from the working tree,
// writes instrumented copies to <out>/ and emits <out>/overlay.json for
// `go build -overlay`. Nothing under <repo> is modified.
//
// All edits are textual splices that add no newline, so every line number of the
// woven copy equals the line number of the original file.
//
// Rules (see DESIGN.md section 3.1):
//
//	W1  entry of every func literal `func(*frame) bltn`           -> verifStep(site)
//	    (a literal whose body is a single `return x(f)` is a forwarder -> verifYield)
//	W2  entry of every other func literal taking exactly *frame    -> verifYield(site)
//	W3  before every statement nested in a W1/W2 literal, in the
//	    run-time functions listed in rtFuncs and in rtFiles         -> verifYield(site)
//	W4  every `go f(a...)`                                         -> { _vf := f; _va0 := a; verifGo(site, func(){ _vf(_va0) }) }
//	W5  every statement `x.Lock()` / `x.RLock()` (x addressable)   -> verifLock(&(x), write, site)
package main

import (
	"encoding/json"
	"flag"
	"fmt"
	"go/ast"
	"go/parser"
	"go/token"
	"os"
	"path/filepath"
	"sort"
	"strings"
)

// Named functions whose statements are run-time code executed by tasks.
var rtFuncs = map[string]bool{
	"runCfg": true, "run": true, "clone": true, "stop": true,
	"Execute": true, "ExecuteWithContext": true, "EvalWithContext": true, "EvalPathWithContext": true,
	"getFrame": true, "newFrame": true,
	"execute": true, "runWithID": true, "eval": true, "evalPath": true, "EvalPath": true, "Eval": true,
}

// rtAuto is computed per tree: the named functions (transitively) called from
// frame closures and from the functions above, i.e. code that executes at run
// time. Purely compile-time files are left out.
var rtAuto = map[string]bool{}

var compileOnlyFiles = map[string]bool{"cfg.go": true, "gta.go": true, "ast.go": true, "typecheck.go": true, "dot.go": true, "generic.go": true, "src.go": true, "build.go": true,
	"use.go": true, "scope.go": true, "interp.go": true, "program.go": true, "trace.go": true, "doc.go": true}

// calledNames collects the names called inside n.
func calledNames(n ast.Node, into map[string]bool) {
	ast.Inspect(n, func(x ast.Node) bool {
		if c, ok := x.(*ast.CallExpr); ok {
			switch f := c.Fun.(type) {
			case *ast.Ident:
				into[f.Name] = true
			case *ast.SelectorExpr:
				into[f.Sel.Name] = true
			}
		}
		return true
	})
}

// discoverRT fills rtAuto from the parsed files of the tree.
func discoverRT(files map[string]*ast.File) {
	decls := map[string][]*ast.FuncDecl{}
	declFile := map[*ast.FuncDecl]string{}
	seed := map[string]bool{}
	for name, f := range files {
		for _, d := range f.Decls {
			if fd, ok := d.(*ast.FuncDecl); ok && fd.Body != nil {
				decls[fd.Name.Name] = append(decls[fd.Name.Name], fd)
				declFile[fd] = name
				if rtFuncs[fd.Name.Name] || rtFiles[name] {
					calledNames(fd.Body, seed)
				}
			}
		}
		ast.Inspect(f, func(x ast.Node) bool {
			if fl, ok := x.(*ast.FuncLit); ok {
				if isFrame, _, _ := frameLit(fl.Type); isFrame {
					calledNames(fl.Body, seed)
					return false
				}
			}
			return true
		})
	}
	work := []string{}
	for n := range seed {
		work = append(work, n)
	}
	sort.Strings(work)
	for len(work) > 0 {
		n := work[0]
		work = work[1:]
		if rtAuto[n] {
			continue
		}
		fds := decls[n]
		if len(fds) == 0 {
			continue
		}
		any := false
		for _, fd := range fds {
			if compileOnlyFiles[declFile[fd]] {
				continue
			}
			any = true
			more := map[string]bool{}
			calledNames(fd.Body, more)
			var ms []string
			for m := range more {
				ms = append(ms, m)
			}
			sort.Strings(ms)
			work = append(work, ms...)
		}
		if any {
			rtAuto[n] = true
		}
	}
}

// Files that are run-time code as a whole.
var rtFiles = map[string]bool{"debugger.go": true}

type site struct {
	Kind string `json:"kind"` // step, fwd, operand, stmt, go, lock
	File string `json:"file"`
	Line int    `json:"line"`
	Func string `json:"func"`
	Op   int    `json:"op"` // site of the enclosing step closure, -1 if none
}

type edit struct {
	start, end int // byte offsets; start==end is an insertion
	text       string
	prio       int // insertions at the same offset: lower first
}

var sites []site

// curOp is the site of the innermost enclosing step closure while weaving.
var curOp = -1

func addSite(kind, file string, line int, fn string) int {
	sites = append(sites, site{kind, file, line, fn, curOp})
	return len(sites) - 1
}

func die(f string, a ...any) {
	fmt.Fprintf(os.Stderr, "weave: "+f+"\n", a...)
	os.Exit(2)
}

func apply(src []byte, edits []edit) []byte {
	sort.SliceStable(edits, func(i, j int) bool {
		if edits[i].start != edits[j].start {
			return edits[i].start < edits[j].start
		}
		// insertions before replacements at the same offset
		ii, ij := edits[i].start == edits[i].end, edits[j].start == edits[j].end
		if ii != ij {
			return ii
		}
		return edits[i].prio < edits[j].prio
	})
	var out []byte
	pos := 0
	for _, e := range edits {
		if e.start < pos {
			die("overlapping edits at offset %d", e.start)
		}
		out = append(out, src[pos:e.start]...)
		out = append(out, e.text...)
		pos = e.end
	}
	out = append(out, src[pos:]...)
	return out
}

func isStarFrame(e ast.Expr) bool {
	s, ok := e.(*ast.StarExpr)
	if !ok {
		return false
	}
	id, ok := s.X.(*ast.Ident)
	return ok && id.Name == "frame"
}

// frameLit reports whether ft is `func(<one *frame>) ...` and whether the result is bltn.
func frameLit(ft *ast.FuncType) (isFrame, isBltn bool, param string) {
	if ft.Params == nil || len(ft.Params.List) != 1 {
		return
	}
	p := ft.Params.List[0]
	if len(p.Names) > 1 || !isStarFrame(p.Type) {
		return
	}
	if len(p.Names) == 1 {
		param = p.Names[0].Name
	}
	isFrame = true
	if ft.Results != nil && len(ft.Results.List) == 1 && len(ft.Results.List[0].Names) == 0 {
		if id, ok := ft.Results.List[0].Type.(*ast.Ident); ok && id.Name == "bltn" {
			isBltn = true
		}
	}
	return
}

func isForwarder(fl *ast.FuncLit, param string) bool {
	if param == "" || len(fl.Body.List) != 1 {
		return false
	}
	r, ok := fl.Body.List[0].(*ast.ReturnStmt)
	if !ok || len(r.Results) != 1 {
		return false
	}
	c, ok := r.Results[0].(*ast.CallExpr)
	if !ok || len(c.Args) != 1 {
		return false
	}
	id, ok := c.Args[0].(*ast.Ident)
	return ok && id.Name == param
}

func addressable(e ast.Expr) bool {
	switch x := e.(type) {
	case *ast.Ident:
		return true
	case *ast.SelectorExpr:
		return addressable(x.X)
	case *ast.IndexExpr:
		return addressable(x.X)
	case *ast.StarExpr:
		return true
	case *ast.ParenExpr:
		return addressable(x.X)
	}
	return false
}

// pass1 rewrites go statements.
func pass1(fset *token.FileSet, name string, src []byte) []byte {
	f, err := parser.ParseFile(fset, name, src, parser.ParseComments)
	if err != nil {
		die("parse %s: %v", name, err)
	}
	var edits []edit
	off := func(p token.Pos) int { return fset.Position(p).Offset }
	var stack []string
	var visit func(n ast.Node) bool
	visit = func(n ast.Node) bool {
		switch x := n.(type) {
		case *ast.FuncDecl:
			stack = append(stack, x.Name.Name)
			if x.Body != nil {
				ast.Inspect(x.Body, visit)
			}
			stack = stack[:len(stack)-1]
			return false
		case *ast.GoStmt:
			fn := ""
			if len(stack) > 0 {
				fn = stack[len(stack)-1]
			}
			id := addSite("go", name, fset.Position(x.Pos()).Line, fn)
			var b strings.Builder
			b.WriteString("{ _vf := ")
			b.Write(src[off(x.Call.Fun.Pos()):off(x.Call.Fun.End())])
			for i, a := range x.Call.Args {
				fmt.Fprintf(&b, "; _va%d := ", i)
				b.Write(src[off(a.Pos()):off(a.End())])
			}
			fmt.Fprintf(&b, "; verifGo(%d, func() { _vf(", id)
			for i := range x.Call.Args {
				if i > 0 {
					b.WriteString(", ")
				}
				fmt.Fprintf(&b, "_va%d", i)
				if i == len(x.Call.Args)-1 && x.Call.Ellipsis.IsValid() {
					b.WriteString("...")
				}
			}
			b.WriteString(") }) }")
			edits = append(edits, edit{off(x.Pos()), off(x.End()), b.String(), 0})
			return false // nested go statements inside the call are not rewritten twice
		}
		return true
	}
	ast.Inspect(f, visit)
	if len(edits) == 0 {
		return src
	}
	return apply(src, edits)
}

type weaver struct {
	fset  *token.FileSet
	name  string
	src   []byte
	edits []edit
}

func (w *weaver) off(p token.Pos) int { return w.fset.Position(p).Offset }
func (w *weaver) line(p token.Pos) int { return w.fset.Position(p).Line }

func (w *weaver) insert(p token.Pos, text string, prio int) {
	o := w.off(p)
	w.edits = append(w.edits, edit{o, o, text, prio})
}

// stmts instruments a statement list (W3, W5) and descends.
func (w *weaver) stmts(list []ast.Stmt, fn string, rt bool) {
	for i, s := range list {
		if rt {
			// the statement that follows the execution of a callee's body
			// (`runCfg(...)`) is the window between the callee's exit, deferred
			// calls included, and the delivery of its results: its own class
			kind := "stmt"
			if i > 0 && callsRunCfg(list[i-1]) {
				kind = "stmt-after-run"
			}
			id := addSite(kind, w.name, w.line(s.Pos()), fn)
			w.insert(s.Pos(), fmt.Sprintf("verifYield(%d); ", id), 1)
		}
		w.stmt(s, fn, rt)
	}
}

func callsRunCfg(s ast.Stmt) bool {
	es, ok := s.(*ast.ExprStmt)
	if !ok {
		return false
	}
	c, ok := es.X.(*ast.CallExpr)
	if !ok {
		return false
	}
	id, ok := c.Fun.(*ast.Ident)
	return ok && id.Name == "runCfg"
}

// isVerifGoBlock recognises the block produced by pass1 (so that no yield is put
// between the evaluation of go-statement operands and the spawn: they belong to
// the statement).
func isVerifGoBlock(s ast.Stmt) (*ast.BlockStmt, bool) {
	b, ok := s.(*ast.BlockStmt)
	if !ok || len(b.List) == 0 {
		return nil, false
	}
	a, ok := b.List[0].(*ast.AssignStmt)
	if !ok || len(a.Lhs) != 1 {
		return nil, false
	}
	id, ok := a.Lhs[0].(*ast.Ident)
	return b, ok && id.Name == "_vf"
}

func (w *weaver) stmt(s ast.Stmt, fn string, rt bool) {
	switch x := s.(type) {
	case nil:
	case *ast.BlockStmt:
		if b, ok := isVerifGoBlock(s); ok {
			// descend into expressions only (func literals), no statement hooks
			for _, st := range b.List {
				w.exprsIn(st, fn, rt)
			}
			return
		}
		w.stmts(x.List, fn, rt)
	case *ast.IfStmt:
		w.exprsIn(x.Init, fn, rt)
		w.expr(x.Cond, fn, rt)
		w.stmt(x.Body, fn, rt)
		w.stmt(x.Else, fn, rt)
	case *ast.ForStmt:
		w.exprsIn(x.Init, fn, rt)
		w.expr(x.Cond, fn, rt)
		w.exprsIn(x.Post, fn, rt)
		w.stmt(x.Body, fn, rt)
	case *ast.RangeStmt:
		w.expr(x.X, fn, rt)
		w.stmt(x.Body, fn, rt)
	case *ast.SwitchStmt:
		w.exprsIn(x.Init, fn, rt)
		w.expr(x.Tag, fn, rt)
		w.clauses(x.Body, fn, rt)
	case *ast.TypeSwitchStmt:
		w.exprsIn(x.Init, fn, rt)
		w.exprsIn(x.Assign, fn, rt)
		w.clauses(x.Body, fn, rt)
	case *ast.SelectStmt:
		if w.recvSelect(x, fn, rt) {
			return
		}
		w.clauses(x.Body, fn, rt)
	case *ast.CaseClause:
		for _, e := range x.List {
			w.expr(e, fn, rt)
		}
		w.stmts(x.Body, fn, rt)
	case *ast.CommClause:
		w.exprsIn(x.Comm, fn, rt)
		w.stmts(x.Body, fn, rt)
	case *ast.LabeledStmt:
		w.stmt(x.Stmt, fn, rt)
	case *ast.ExprStmt:
		if w.lockStmt(x, fn) {
			return
		}
		w.expr(x.X, fn, rt)
	default:
		w.exprsIn(s, fn, rt)
	}
}

func (w *weaver) clauses(b *ast.BlockStmt, fn string, rt bool) {
	for _, c := range b.List {
		w.stmt(c, fn, rt)
	}
}

// lockStmt applies W5.
func (w *weaver) lockStmt(x *ast.ExprStmt, fn string) bool {
	c, ok := x.X.(*ast.CallExpr)
	if !ok || len(c.Args) != 0 {
		return false
	}
	sel, ok := c.Fun.(*ast.SelectorExpr)
	if !ok || (sel.Sel.Name != "Lock" && sel.Sel.Name != "RLock") || !addressable(sel.X) {
		return false
	}
	// only fields/variables that look like mutexes of the package: the receiver
	// expression must end in an identifier containing "mutex", "Lock" or "mu".
	last := ""
	switch r := sel.X.(type) {
	case *ast.Ident:
		last = r.Name
	case *ast.SelectorExpr:
		last = r.Sel.Name
	}
	ll := strings.ToLower(last)
	if !strings.Contains(ll, "mutex") && !strings.Contains(ll, "lock") && !strings.HasPrefix(ll, "mu") {
		return false
	}
	id := addSite("lock", w.name, w.line(x.Pos()), fn)
	recv := string(w.src[w.off(sel.X.Pos()):w.off(sel.X.End())])
	w.edits = append(w.edits, edit{w.off(x.Pos()), w.off(x.End()),
		fmt.Sprintf("verifLock(&(%s), %v, %d)", recv, sel.Sel.Name == "Lock", id), 0})
	return true
}

// exprsIn finds func literals in the expressions of a simple statement.
func (w *weaver) exprsIn(s ast.Node, fn string, rt bool) {
	if s == nil || isNilNode(s) {
		return
	}
	ast.Inspect(s, func(n ast.Node) bool {
		if fl, ok := n.(*ast.FuncLit); ok {
			w.funcLit(fl, fn, rt)
			return false
		}
		if c, ok := n.(*ast.CallExpr); ok {
			w.selectCall(c, fn)
		}
		return true
	})
}

// recvSelect applies W8 to a native select statement whose clauses are all plain
// receives (`case <-ch:`), without default: it becomes
//
//	switch verifRecvSelect(site, ch1, ch2) { case 0: ... case 1: ... }
//
// so that, like for reflect.Select (W7), the choice among several ready cases is
// the simulator's and not the Go runtime's (the entry points select on ctx.Done()
// and on the end of the evaluation; the debugger on the resume channel and on
// its context).
func (w *weaver) recvSelect(x *ast.SelectStmt, fn string, rt bool) bool {
	var chans []ast.Expr
	for _, c := range x.Body.List {
		cc, ok := c.(*ast.CommClause)
		if !ok || cc.Comm == nil {
			return false // default clause
		}
		es, ok := cc.Comm.(*ast.ExprStmt)
		if !ok {
			return false
		}
		u, ok := es.X.(*ast.UnaryExpr)
		if !ok || u.Op != token.ARROW {
			return false
		}
		chans = append(chans, u.X)
	}
	if len(chans) < 2 {
		return false
	}
	site := addSite("select", w.name, w.line(x.Pos()), fn)
	var args []string
	for _, ch := range chans {
		args = append(args, string(w.src[w.off(ch.Pos()):w.off(ch.End())]))
	}
	w.edits = append(w.edits, edit{w.off(x.Pos()), w.off(x.Body.Lbrace), fmt.Sprintf("switch verifRecvSelect(%d, %s) ", site, strings.Join(args, ", ")), 0})
	for i, c := range x.Body.List {
		cc := c.(*ast.CommClause)
		w.edits = append(w.edits, edit{w.off(cc.Pos()), w.off(cc.Colon), fmt.Sprintf("case %d", i), 0})
		w.stmts(cc.Body, fn, rt)
	}
	// (a select is a terminating statement when its clauses are; a switch needs a
	// default clause for that)
	w.insert(x.Body.Rbrace, "default: panic(\"verif: verifRecvSelect chose no case\") ", 9)
	return true
}

// selectCall applies W7: reflect.Select(x) -> verifSelect(site, x), so that the
// choice among several ready cases is the simulator's, not the runtime's.
func (w *weaver) selectCall(c *ast.CallExpr, fn string) {
	sel, ok := c.Fun.(*ast.SelectorExpr)
	if !ok || sel.Sel.Name != "Select" || len(c.Args) != 1 {
		return
	}
	id, ok := sel.X.(*ast.Ident)
	if !ok || id.Name != "reflect" {
		return
	}
	site := addSite("select", w.name, w.line(c.Pos()), fn)
	w.edits = append(w.edits, edit{w.off(c.Fun.Pos()), w.off(c.Lparen) + 1, fmt.Sprintf("verifSelect(%d, ", site), 0})
}

func isNilNode(n ast.Node) bool {
	switch x := n.(type) {
	case ast.Stmt:
		return x == nil
	case ast.Expr:
		return x == nil
	}
	return false
}

func (w *weaver) expr(e ast.Expr, fn string, rt bool) {
	if e == nil {
		return
	}
	w.exprsIn(e, fn, rt)
}

func (w *weaver) funcLit(fl *ast.FuncLit, fn string, rt bool) {
	isFrame, isBltn, param := frameLit(fl.Type)
	name := fn + ".func"
	if isFrame {
		rt = true
		kind, hook := "operand", "verifYield"
		if isBltn {
			if isForwarder(fl, param) {
				kind = "fwd"
			} else {
				kind, hook = "step", "verifStep"
			}
		}
		id := addSite(kind, w.name, w.line(fl.Body.Lbrace), fn)
		w.insert(fl.Body.Lbrace+1, fmt.Sprintf(" %s(%d); ", hook, id), 0)
		if kind == "step" {
			saved := curOp
			curOp = id
			sites[id].Op = id
			defer func() { curOp = saved }()
		}
	}
	w.stmts(fl.Body.List, name, rt)
}

func (w *weaver) file(f *ast.File) {
	fileRT := rtFiles[w.name]
	for _, d := range f.Decls {
		switch x := d.(type) {
		case *ast.FuncDecl:
			if x.Body == nil {
				continue
			}
			rt := fileRT || rtFuncs[x.Name.Name] || (rtAuto[x.Name.Name] && !compileOnlyFiles[w.name])
			w.stmts(x.Body.List, x.Name.Name, rt)
		case *ast.GenDecl:
			w.exprsIn(x, "", false)
		}
	}
}

const hooksSrc = `// Code generated by /verif/weave. DO NOT EDIT.

package interp

import (
	"reflect"
	"sync"
)

// Hooks of the deterministic simulator. With every variable nil the woven
// package behaves like the original.
var (
	VerifStep  func(site int)
	VerifYield func(site int)
	VerifGo    func(site int, fn func())
	VerifLock  func(mu any, write bool, site int) bool
	// VerifSelect may perform the select itself (handled=true).
	VerifSelect func(site int, cases []reflect.SelectCase) (chosen int, recv reflect.Value, recvOK bool, handled bool)
	// VerifSelected is told which case a select completed with (probe).
	VerifSelected func(site int, cases []reflect.SelectCase, chosen int)
)

func verifSelect(site int, cases []reflect.SelectCase) (int, reflect.Value, bool) {
	if VerifSelect != nil {
		if c, v, ok, handled := VerifSelect(site, cases); handled {
			if VerifSelected != nil {
				VerifSelected(site, cases, c)
			}
			return c, v, ok
		}
	}
	c, v, ok := reflect.Select(cases)
	if VerifSelected != nil {
		VerifSelected(site, cases, c)
	}
	return c, v, ok
}

// verifRecvSelect is a native select over plain receives (W8).
func verifRecvSelect(site int, chans ...interface{}) int {
	cases := make([]reflect.SelectCase, len(chans))
	for i, c := range chans {
		cases[i] = reflect.SelectCase{Dir: reflect.SelectRecv, Chan: reflect.ValueOf(c)}
	}
	chosen, _, _ := verifSelect(site, cases)
	return chosen
}

func verifStep(site int) {
	if VerifStep != nil {
		VerifStep(site)
	}
}

func verifYield(site int) {
	if VerifYield != nil {
		VerifYield(site)
	}
}

func verifGo(site int, fn func()) {
	if VerifGo != nil {
		VerifGo(site, fn)
		return
	}
	go fn()
}

func verifLock(mu any, write bool, site int) {
	if VerifLock != nil && VerifLock(mu, write, site) {
		return
	}
	switch m := mu.(type) {
	case *sync.Mutex:
		m.Lock()
	case **sync.Mutex:
		(*m).Lock()
	case *sync.RWMutex:
		if write {
			m.Lock()
		} else {
			m.RLock()
		}
	case **sync.RWMutex:
		if write {
			(*m).Lock()
		} else {
			(*m).RLock()
		}
	case sync.Locker:
		m.Lock()
	default:
		panic("verifLock: unsupported lock type")
	}
}

// VerifSite describes one instrumentation site.
type VerifSite struct {
	Kind string
	File string
	Line int
	Func string
	Op   int
}

// VerifRunID exposes the interpreter's run generation to the harness (read only).
func VerifRunID(i *Interpreter) uint64 { return i.runid() }
`

func main() {
	repo := flag.String("repo", "/repo", "yaegi tree")
	out := flag.String("out", "", "output directory (created)")
	as := flag.String("as", "", "path under which the build sees the tree (overlay keys); default: -repo")
	flag.Parse()
	if *as == "" {
		*as = *repo
	}
	asDir := filepath.Join(*as, "interp")
	if *out == "" {
		die("-out required")
	}
	dir := filepath.Join(*repo, "interp")
	ents, err := os.ReadDir(dir)
	if err != nil {
		die("%v", err)
	}
	if err := os.MkdirAll(*out, 0o755); err != nil {
		die("%v", err)
	}
	overlay := map[string]string{}
	var names []string
	for _, e := range ents {
		n := e.Name()
		if e.IsDir() || !strings.HasSuffix(n, ".go") || strings.HasSuffix(n, "_test.go") || strings.HasPrefix(n, "zz_verif") {
			continue
		}
		names = append(names, n)
	}
	sort.Strings(names)
	parsed := map[string]*ast.File{}
	for _, n := range names {
		src, err := os.ReadFile(filepath.Join(dir, n))
		if err != nil {
			die("%v", err)
		}
		pf, err := parser.ParseFile(token.NewFileSet(), n, src, 0)
		if err != nil {
			die("parse %s: %v", n, err)
		}
		parsed[n] = pf
	}
	discoverRT(parsed)
	for _, n := range names {
		src, err := os.ReadFile(filepath.Join(dir, n))
		if err != nil {
			die("%v", err)
		}
		src1 := src
		for i := 0; ; i++ {
			next := pass1(token.NewFileSet(), n, src1)
			if len(next) == len(src1) {
				break
			}
			src1 = next
			if i > 8 {
				die("%s: go statements nested too deep", n)
			}
		}
		fset2 := token.NewFileSet()
		f, err := parser.ParseFile(fset2, n, src1, parser.ParseComments)
		if err != nil {
			die("re-parse %s: %v", n, err)
		}
		w := &weaver{fset: fset2, name: n, src: src1}
		w.file(f)
		res := src1
		if len(w.edits) > 0 {
			res = apply(src1, w.edits)
		}
		if strings.Count(string(res), "\n") != strings.Count(string(src), "\n") {
			die("%s: line count changed", n)
		}
		if len(w.edits) == 0 && len(src1) == len(src) && asDir == dir {
			continue
		}
		dst := filepath.Join(*out, n)
		if err := os.WriteFile(dst, res, 0o644); err != nil {
			die("%v", err)
		}
		overlay[filepath.Join(asDir, n)] = dst
	}
	if asDir != dir {
		// files of the build's tree that the woven tree does not have are deleted
		if ents2, err := os.ReadDir(asDir); err == nil {
			for _, e := range ents2 {
				n := e.Name()
				if e.IsDir() || !strings.HasSuffix(n, ".go") || strings.HasSuffix(n, "_test.go") {
					continue
				}
				if _, ok := overlay[filepath.Join(asDir, n)]; !ok {
					overlay[filepath.Join(asDir, n)] = ""
				}
			}
		}
	}
	var b strings.Builder
	b.WriteString(hooksSrc)
	b.WriteString("\n// VerifSites is the site table.\nvar VerifSites = []VerifSite{\n")
	for _, s := range sites {
		fmt.Fprintf(&b, "\t{%q, %q, %d, %q, %d},\n", s.Kind, s.File, s.Line, s.Func, s.Op)
	}
	b.WriteString("}\n")
	hp := filepath.Join(*out, "zz_verif_hooks.go")
	if err := os.WriteFile(hp, []byte(b.String()), 0o644); err != nil {
		die("%v", err)
	}
	overlay[filepath.Join(asDir, "zz_verif_hooks.go")] = hp
	js, _ := json.MarshalIndent(map[string]any{"Replace": overlay}, "", " ")
	if err := os.WriteFile(filepath.Join(*out, "overlay.json"), js, 0o644); err != nil {
		die("%v", err)
	}
	counts := map[string]int{}
	for _, s := range sites {
		counts[s.Kind]++
	}
	cj, _ := json.Marshal(counts)
	fmt.Printf("weave: %d files, %d sites %s, %d run-time functions discovered\n", len(overlay)-1, len(sites), cj, len(rtAuto))
}
