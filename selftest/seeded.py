#!/usr/bin/env python3
"""Runs the quick check of the targeted property against every seeded change in
/verif/seeded/<id>/ (patch applied to a scratch copy of /repo, never to /repo)
and records what was detected in seeded/<id>/meta.json ("detected_by")."""
import json, os, shutil, subprocess, sys, tempfile, glob

def main():
    verif = "/verif"
    only = sys.argv[1:]
    env = dict(os.environ, GOFLAGS="-mod=mod", GOPROXY="off", GOSUMDB="off", GOTOOLCHAIN="local")
    missed = []
    for d in sorted(glob.glob(os.path.join(verif, "seeded", "*"))):
        k = os.path.basename(d)
        if only and k not in only:
            continue
        mp = os.path.join(d, "meta.json")
        meta = json.load(open(mp)) if os.path.exists(mp) else {"id": k, "breaks_property": k[:3]}
        prop = meta["breaks_property"]
        if meta.get("superseded"):
            print(f"{k} {prop} SUPERSEDED (no longer breaks the property on the current tree, see meta.json)")
            continue
        tmp = tempfile.mkdtemp(prefix="verif-seeded-")
        try:
            shutil.copytree("/repo/interp", os.path.join(tmp, "interp"))
            for x in ("_test", "stdlib"):
                os.symlink(os.path.join("/repo", x), os.path.join(tmp, x))
            r = subprocess.run(["patch", "-p1", "-s", "-d", tmp, "-i", os.path.join(d, "patch.diff")], capture_output=True, text=True)
            if r.returncode != 0:
                print(f"{k}: patch does not apply: {r.stdout} {r.stderr}")
                missed.append(k)
                continue
            out = os.path.join(tmp, "out")
            os.makedirs(out)
            e2 = dict(env, VERIF_REPO=tmp, VERIF_OUT_DIR=out)
            r = subprocess.run([os.path.join(verif, "bin/verifctl"), "check", prop, "--tier", "quick"], cwd=verif, env=e2, capture_output=True, text=True)
            sigs = []
            for l in r.stdout.splitlines():
                if 'signature "' in l:
                    sigs.append({"signature": l.split('signature "')[1].split('"')[0], "seen": int(l.split("seen ")[1].split(" ")[0])})
            last = r.stdout.strip().splitlines()[-1] if r.stdout.strip() else ""
            meta["detected_by"] = {"command": f"VERIF_REPO=<scratch copy with the patch> VERIF_OUT_DIR=<scratch> ./bin/verifctl check {prop} --tier quick   (selftest/seeded.py)",
                                   "exit": r.returncode, "violations": sigs[:8], "summary": last}
            json.dump(meta, open(mp, "w"), indent=1)
            st = "CAUGHT" if r.returncode == 1 else ("HARNESS-TROUBLE" if r.returncode == 2 else "MISSED")
            if r.returncode != 1:
                missed.append(k)
            print(f"{k} {prop} {st}: {[s['signature'] for s in sigs[:3]]}")
        finally:
            shutil.rmtree(tmp, ignore_errors=True)
    print(f"{'ALL CAUGHT' if not missed else 'NOT CAUGHT: ' + ' '.join(missed)}")
    sys.exit(1 if missed else 0)

main()
