#!/usr/bin/env python3
"""Sensitivity self-test (DESIGN 3.6): each mutant is a small textual change of
/repo/interp that breaks one claimed property while still compiling. It is applied
to a scratch copy outside /repo and /verif, the property's quick check is pointed
at the copy (VERIF_REPO), and must report a VIOLATION. Nothing in /repo changes."""
import os, shutil, subprocess, sys, tempfile, json, time

MUTANTS = [
 # (name, property, file, old, new, description)
 ("M01-no-runid-check-in-loop", "C09", "run.go",
  "for exec := n.exec; exec != nil && f.runid() == n.interp.runid(); {",
  "for exec := n.exec; exec != nil; {",
  "the plain execution loop no longer compares the frame's run id with the interpreter's"),
 ("M02-callee-gets-current-id", "C09", "run.go",
  "\t\tnf := newFrame(f, len(def.types), f.runid())\n\t\tvar vararg reflect.Value",
  "\t\tnf := newFrame(f, len(def.types), n.interp.runid())\n\t\tvar vararg reflect.Value",
  "callee frames take the interpreter's current run id instead of inheriting the caller's"),
 ("M03-send-without-done", "C09", "run.go",
  "chosen, _, _ := reflect.Select([]reflect.SelectCase{done, {Dir: reflect.SelectSend, Chan: ch, Send: data}})\n\t\tif chosen == 0 {\n\t\t\treturn nil\n\t\t}",
  "ch.Send(data)\n\t\t_ = done",
  "a blocking channel send no longer races the done channel"),
 ("M04-goroutine-args-not-copied", "C08", "run.go",
  "\t\t\t\t\tvalue := v(f)\n\t\t\t\t\tin[i] = reflect.New(value.Type()).Elem()\n\t\t\t\t\tin[i].Set(value)",
  "\t\t\t\t\tin[i] = v(f)",
  "arguments of a go statement calling a binary/closure function are passed by reference to the caller's frame"),
 ("M05-callbin-shared-arg-buffer", "C08", "run.go",
  "\t\tdefault:\n\t\t\tn.exec = func(f *frame) bltn {\n\t\t\t\tin := make([]reflect.Value, l)\n\t\t\t\tfor i, v := range values {\n\t\t\t\t\tin[i] = getBinValue(getMapType, v, f)\n\t\t\t\t}\n\t\t\t\tout := callFn(value(f), in)\n\t\t\t\tfor i := 0; i < len(out); i++ {",
  "\t\tdefault:\n\t\t\tin := make([]reflect.Value, l)\n\t\t\tn.exec = func(f *frame) bltn {\n\t\t\t\tfor i, v := range values {\n\t\t\t\t\tin[i] = getBinValue(getMapType, v, f)\n\t\t\t\t}\n\t\t\t\tout := callFn(value(f), in)\n\t\t\t\tfor i := 0; i < len(out); i++ {",
  "the argument buffer of binary calls is hoisted out of the per-execution closure (shared by all goroutines executing the statement)"),
 ("M06-defer-appended", "C06", "run.go",
  "\t\t\t\tval[i+1] = copyValue(v(f))\n\t\t\t}\n\t\t\tf.deferred = append([][]reflect.Value{val}, f.deferred...)",
  "\t\t\t\tval[i+1] = copyValue(v(f))\n\t\t\t}\n\t\t\tf.deferred = append(f.deferred, val)",
  "deferred interpreted calls are appended instead of prepended (FIFO instead of LIFO)"),
 ("M07-recover-from-nested-call", "C06", "run.go",
  "\tn.exec = func(f *frame) bltn {\n\t\tif f.anc.recovered == nil {",
  "\tn.exec = func(f *frame) bltn {\n\t\tif f.anc.recovered == nil && f.anc.anc != nil && f.anc.anc.recovered != nil {\n\t\t\tf.anc.recovered, f.anc.anc.recovered = f.anc.anc.recovered, nil\n\t\t}\n\t\tif f.anc.recovered == nil {",
  "recover also stops a panic when called one call deeper than the deferred function"),
 ("M08-no-repanic", "C06", "run.go",
  "\t\t\tf.mutex.Unlock()\n\t\t\tpanic(f.recovered)\n\t\t}",
  "\t\t\tf.mutex.Unlock()\n\t\t\tif len(f.deferred) == 0 {\n\t\t\t\tpanic(f.recovered)\n\t\t\t}\n\t\t}",
  "a frame that has deferred calls swallows the panic in flight instead of re-panicking"),
 ("M09-execute-without-recover", "C06", "program.go",
  "\t\tr := recover()\n\t\tif r != nil {\n\t\t\tvar pc [64]uintptr // 64 frames should be enough.",
  "\t\tvar r interface{}\n\t\tif _, isErr := r.(error); !isErr {\n\t\t\treturn\n\t\t}\n\t\tr = recover()\n\t\tif r != nil {\n\t\t\tvar pc [64]uintptr // 64 frames should be enough.",
  "Execute no longer recovers: an uncaught script panic escapes into the host goroutine"),
 ("M10-debug-fnext-first", "C19", "run.go",
  "\t\tcase isExecNode(m.tnext, exec):\n\t\t\tm = m.tnext\n\t\tcase isExecNode(m.fnext, exec):\n\t\t\tm = m.fnext",
  "\t\tcase m.fnext != nil:\n\t\t\tm = m.fnext\n\t\tcase isExecNode(m.tnext, exec):\n\t\t\tm = m.tnext",
  "the debugger loop takes the false branch as current node whenever there is one"),
 ("M11-root-id-not-refreshed", "C10", [("program.go", "\tinterp.frame.setrunid(id)\n", "\t_ = id\n"), ("interp.go", "\t\tinterp.frame.setrunid(id)\n", "\t\t_ = id\n")], None, None,
  "neither the start of an evaluation nor Execute refreshes the root frame's run id any more"),
 ("M12-rangechan-without-done", "C09", "run.go",
  "\t\tchosen, v, ok := reflect.Select([]reflect.SelectCase{done, {Dir: reflect.SelectRecv, Chan: value(f)}})\n\t\tif chosen == 0 {\n\t\t\treturn nil\n\t\t}",
  "\t\tv, ok := value(f).Recv()\n\t\t_ = done",
  "ranging over a channel no longer races the done channel"),
 ("M13-wrapper-frame-shared", "C08", "run.go",
  "\t\treturn reflect.MakeFunc(funcType, func(in []reflect.Value) []reflect.Value {\n\t\t\t// Allocate and init local frame. All values to be settable and addressable.\n\t\t\tfr := newFrame(f, len(def.types), f.runid())\n\t\t\td := fr.data",
  "\t\tfr := newFrame(f, len(def.types), f.runid())\n\t\treturn reflect.MakeFunc(funcType, func(in []reflect.Value) []reflect.Value {\n\t\t\t// Allocate and init local frame. All values to be settable and addressable.\n\t\t\tfr.setrunid(f.runid())\n\t\t\td := fr.data",
  "the exported function wrapper allocates one frame per wrapper instead of one per call"),
 ("M14-stop-does-not-close-done", "C09", "interp.go",
  "\tclose(interp.done)\n", "\t_ = interp.done\n",
  "stop() advances the run id but does not close the done channel: blocked tasks never wake"),
 ("M17b-select-done-omitted", "C09", "run.go",
  "\t\tcases[nbClause] = f.done\n",
  "\t\t_ = f.done\n",
  "the done channel is not added to the cases of a select statement"),
 ("M18-recv2-without-done", "C09", "run.go",
  "\t\t\tchosen, v, ok := reflect.Select([]reflect.SelectCase{done, {Dir: reflect.SelectRecv, Chan: ch}})\n\t\t\tif chosen == 0 {\n\t\t\t\treturn nil\n\t\t\t}\n\t\t\tresult.Set(v)",
  "\t\t\tv, ok := ch.Recv()\n\t\t\t_ = done\n\t\t\tresult.Set(v)",
  "the two-value channel receive no longer races the done channel"),
 ("M19-select-cases-shared-again", "C08", "run.go",
  "\t\tcases := make([]reflect.SelectCase, len(tmpl))\n\t\tcopy(cases, tmpl)\n", "\t\tcases := tmpl\n",
  "the select case vector is shared between executions again"),
 ("M20-defer-args-by-reference", "C06", "run.go",
  "\t\t\t\tval[i+1] = copyValue(v(f))\n\t\t\t}\n\t\t\tf.deferred = append([][]reflect.Value{val}, f.deferred...)\n\t\t\treturn tnext\n\t\t}\n\t\treturn\n\t}\n\n\tn.exec = func(f *frame) bltn {\n\t\tf.mutex.Lock()",
  "\t\t\t\tval[i+1] = v(f)\n\t\t\t}\n\t\t\tf.deferred = append([][]reflect.Value{val}, f.deferred...)\n\t\t\treturn tnext\n\t\t}\n\t\treturn\n\t}\n\n\tn.exec = func(f *frame) bltn {\n\t\tf.mutex.Lock()",
  "operands of deferred interpreted calls are references again"),
 ("M21-init-frames-current-id", "C09", "program.go",
  "\t\tinterp.runWithID(n, interp.frame, id)", "\t\tinterp.run(n, interp.frame)",
  "frames of init functions and main take the run id current when they start (cancel during package initialisation is missed)"),
 ("M23-stale-line-breakpoints-kept", "C19", "debugger.go",
  "\t\t\t\t// reset stale breakpoints\n\t\t\t\tn.setBreakOnLine(false)\n", "\t\t\t\t// reset stale breakpoints\n",
  "SetBreakpoints no longer clears line breakpoints of an earlier request"),
 ("M24-stale-func-breakpoints-kept", "C19", "debugger.go",
  "\t\t\t\t// reset stale breakpoints\n\t\t\t\tn.start.setBreakOnCall(false)\n", "\t\t\t\t// reset stale breakpoints\n",
  "SetBreakpoints no longer clears function breakpoints of an earlier request"),
 ("M26-detach-unconditional", "C19", "debugger.go",
  "\t\t\tif interp.debugger == dbg {\n\t\t\t\tinterp.debugger = nil\n\t\t\t}\n", "\t\t\tinterp.debugger = nil\n",
  "the goroutine of a finished session clears the debugger field even if a new session has been started (re-introduces the defect repaired by a2e8040)"),
 ("M27-deferred-panic-eager", "C06", "run.go",
  "\tif n.anc.kind == deferStmt {\n\t\t// A deferred panic is raised when the function ends", "\tif false && n.anc.kind == deferStmt {\n\t\t// A deferred panic is raised when the function ends",
  "defer panic(v) raises at the defer statement again (re-introduces the defect repaired by eb7df2c)"),
 ("M28-import-init-panic-escapes", "C06", "src.go",
  "\t\tif r := recover(); r != nil {\n\t\t\tvar pc [64]uintptr // 64 frames should be enough.\n\t\t\tn := runtime.Callers(1, pc[:])\n\t\t\terr = Panic{Value: r, Callers: pc[:n], Stack: debug.Stack()}\n\t\t}\n", "\t\tif r := recover(); r != nil {\n\t\t\tpanic(r)\n\t\t}\n\t\t_, _ = runtime.Callers, debug.Stack\n",
  "a panic raised while a source package is initialised escapes Eval again (re-introduces the defect repaired by 7789d12)"),
 ("M30-terminate-then-go-statement", "C19", "debugger.go",
  "\tif dbg.gLive == nil {\n\t\t// Terminate has been called: the Go routine stops at its first statement.\n\t\tg.mode = DebugTerminate\n\t} else {\n\t\tdbg.gLive[g.id] = g\n\t}\n", "\tdbg.gLive[g.id] = g\n",
  "a goroutine started after Terminate registers in the nil table again (re-introduces the defect repaired by 773c1d0)"),
 ("M31-cancelled-receive-stores-done-value", "C10", "run.go",
  "\t\t\t\tchosen, v, _ := reflect.Select([]reflect.SelectCase{done, {Dir: reflect.SelectRecv, Chan: ch}})\n\t\t\t\tif chosen == 0 {\n\t\t\t\t\t// Cancelled: v is the zero value of the done channel, which\n\t\t\t\t\t// must not be stored in the destination variable.\n\t\t\t\t\treturn nil\n\t\t\t\t}\n\t\t\t\tgetFrame(f, l).data[i] = v\n", "\t\t\t\tchosen, v, _ := reflect.Select([]reflect.SelectCase{done, {Dir: reflect.SelectRecv, Chan: ch}})\n\t\t\t\tgetFrame(f, l).data[i] = v\n\t\t\t\tif chosen == 0 {\n\t\t\t\t\treturn nil\n\t\t\t\t}\n",
  "the cancellable receive stores the selected value before testing the chosen case (re-introduces the defect repaired by bc0ee3f)"),
 ("M32-stop-closes-nil-channel", "C09", "interp.go",
  "\tif interp.done != nil {\n\t\t// (nil: already closed on behalf of a concurrent evaluation, which\n\t\t// shares the channel and has been cancelled too.)\n\t\tclose(interp.done)", "\tif true {\n\t\tclose(interp.done)",
  "stop() closes the cancellation channel even when a concurrent evaluation's stop() has already closed and dropped it (re-introduces the defect repaired by 61d331f)"),
 ("M33-enter-call-needs-parent-debug-data", "C19", "debugger.go",
  "\tfor a := f.anc; a != nil; a = a.anc {\n\t\tif a.debug != nil {\n\t\t\tf.debug.g = a.debug.g\n\t\t\tbreak\n\t\t}\n\t}\n", "\tf.debug.g = f.anc.debug.g\n",
  "enterCall reads the goroutine from the enclosing frame only (re-introduces the defect repaired by the fix for closures created before the session)"),
 ("M29-done-channel-per-evaluation", "C09", "interp.go",
  "\tif interp.done == nil {\n\t\tinterp.done = make(chan struct{})\n\t}\n", "\tinterp.done = make(chan struct{})\n",
  "every WithContext entry point installs a fresh done channel again (re-introduces the defect repaired by ff0a250)"),
]

def main():
    only = sys.argv[1:]
    verif = "/verif"
    env = dict(os.environ, GOFLAGS="-mod=mod", GOPROXY="off", GOSUMDB="off", GOTOOLCHAIN="local")
    results = []
    for name, prop, fname, old, new, desc in MUTANTS:
        if isinstance(old, str) and "PLACEHOLDER" in old:
            continue
        if only and not any(o in name for o in only):
            continue
        tmp = tempfile.mkdtemp(prefix="verif-mutant-")
        try:
            shutil.copytree("/repo/interp", os.path.join(tmp, "interp"))
            for d in ("_test", "stdlib"):
                os.symlink(os.path.join("/repo", d), os.path.join(tmp, d))
            edits = fname if isinstance(fname, list) else [(fname, old, new)]
            bad = False
            for fn_, old_, new_ in edits:
                p = os.path.join(tmp, "interp", fn_)
                s = open(p).read()
                if s.count(old_) != 1:
                    results.append((name, prop, "PATTERN-NOT-FOUND(%d)" % s.count(old_), 0))
                    bad = True
                    break
                open(p, "w").write(s.replace(old_, new_))
            if bad:
                continue
            out = os.path.join(tmp, "out")
            os.makedirs(out)
            t0 = time.time()
            e2 = dict(env, VERIF_REPO=tmp, VERIF_OUT_DIR=out)
            r = subprocess.run([os.path.join(verif, "bin/verifctl"), "check", prop, "--tier", "quick"], cwd=verif, env=e2, capture_output=True, text=True)
            vio = [l for l in r.stdout.splitlines() if l.startswith("VIOLATION")]
            sigs = [l.strip() for l in r.stdout.splitlines() if "signature" in l]
            status = {0: "MISSED", 1: "CAUGHT", 2: "HARNESS-TROUBLE"}.get(r.returncode, "exit%d" % r.returncode)
            results.append((name, prop, status, time.time() - t0))
            print(f"{name:34s} {prop} {status:8s} {time.time()-t0:5.1f}s  {len(vio)} violations; {desc}")
            for s_ in sigs[:3]:
                print("      ", s_[:170])
            if r.returncode == 2:
                print(r.stderr[-1500:])
        finally:
            shutil.rmtree(tmp, ignore_errors=True)
    missed = [r for r in results if r[2] != "CAUGHT"]
    print(f"\n{len(results)-len(missed)}/{len(results)} mutants caught")
    json.dump([{"mutant": a, "property": b, "status": c, "seconds": round(d, 1)} for a, b, c, d in results], open("/tmp/verif-mutants-result.json", "w"), indent=1)
    sys.exit(1 if missed else 0)

main()
