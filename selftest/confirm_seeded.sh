#!/bin/bash
# Confirms one seeded change independently, in a fresh scratch worktree of /repo:
#   1. the patch applies to /repo HEAD and the tree builds;
#   2. the repository's interp test suite passes exactly as the baseline says;
#   3. the demonstration fails with the patch and passes without it.
# usage: confirm_seeded.sh <dir with patch.diff + demo> <test-run-regexp | "main"> [race]
#        (race: the demonstration is run with the race detector, the only thing that tells
#         some changes apart)
set -u
SRC=$1; RUN=$2; RACE=""; [ "${3:-}" = race ] && RACE="-race"
WT=$(mktemp -d /tmp/verif-confirm-XXXXXX)
rmdir "$WT"
git -C /repo worktree add -q --detach "$WT" HEAD || exit 2
trap 'git -C /repo worktree remove --force "$WT" >/dev/null 2>&1; rm -rf "$WT"' EXIT
export GOFLAGS=-mod=mod GOPROXY=off GOSUMDB=off
demo() {
  if [ "$RUN" = main ]; then
    D=$(mktemp -d /tmp/verif-demo-XXXXXX); cp -r "$SRC"/demo/* "$D"/
    sed -i "s#=> .*#=> $WT#" "$D/go.mod"
    (cd "$D" && timeout 600 go run . >/dev/null 2>&1); rc=$?; rm -rf "$D"; return $rc
  else
    cp "$SRC/demo_test.go" "$WT/interp/zz_seeded_demo_test.go"
    (cd "$WT" && timeout 900 go test $RACE -vet=off -count=1 -run "$RUN" ./interp >/dev/null 2>&1); rc=$?
    rm -f "$WT/interp/zz_seeded_demo_test.go"; return $rc
  fi
}
demo; WITHOUT=$?
git -C "$WT" apply "$SRC/patch.diff" || { echo "RESULT $SRC patch-does-not-apply"; exit 1; }
(cd "$WT" && go build ./... && go vet ./interp) >/dev/null 2>&1 || { echo "RESULT $SRC does-not-build"; exit 1; }
demo; WITH=$?
SUITE=$(VERIF_REPO="$WT" /verif/scripts/baseline.sh ./interp 2>&1 | head -1)
echo "RESULT $SRC demo-without-patch-exit=$WITHOUT demo-with-patch-exit=$WITH suite: $SUITE"
